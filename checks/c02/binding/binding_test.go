// Package binding is the C02 part that checks, below the document level, the
// mechanism the "dropped, duplicated, reordered, spliced segments" clause rests
// on for segment counters no affordable document reaches: a segment sealed for
// position (i, last_i) must open at position (j, last_j) only when the two
// positions are the same. kit's EncryptSegment/DecryptSegment are reached
// through the in-package accessor of checks/c01/nonce (build overlay).
package binding

import (
	"bytes"
	"encoding/json"
	"fmt"
	"testing"

	v1 "github.com/dapr/kit/schemes/enc/v1"

	"verif/checks/encenv"
	"verif/enumx"
	"verif/ref/encv1ref"
)

func TestCheck(t *testing.T) { enumx.Main(t, "C02", "binding", run) }

// Case: a segment sealed at (From, FromLast) by Sealer is opened at (To, ToLast).
type Case struct {
	Cipher   int    `json:"cipher"` // 1 = AES-GCM, 2 = CHACHA20-POLY1305
	Sealer   string `json:"sealer"` // "kit" or "reference"
	From     uint32 `json:"from"`
	FromLast bool   `json:"from_last"`
	To       uint32 `json:"to"`
	ToLast   bool   `json:"to_last"`
}

var ciphers = []v1.Cipher{"", v1.CipherAESGCM, v1.CipherChaCha20Poly1305}

var counters = func() []uint32 {
	base := []uint32{0, 1, 2, 3, 255, 256, 257, 65535, 65536, 65537, 65538, 1<<24 - 1, 1 << 24, 1<<24 + 1, 1 << 31, 1<<31 + 1, 1<<32 - 2, 1<<32 - 1}
	for b := 0; b < 32; b++ {
		base = append(base, 1<<b, 1<<b+1)
	}
	for by := 0; by < 4; by++ {
		base = append(base, 0xA5<<(8*by), 0xA5<<(8*by)+1)
	}
	seen := map[uint32]bool{}
	var out []uint32
	for _, c := range base {
		if !seen[c] {
			seen[c] = true
			out = append(out, c)
		}
	}
	return out
}()

var (
	fk = encenv.Pattern(32, 0x42)
	np = []byte{1, 2, 3, 4, 5, 6, 7}
)

func evalCase(c *Case) (key, msg string) {
	data := encenv.Pattern(33, byte(c.From)^0x5a)
	var seg []byte
	var err error
	if c.Sealer == "kit" {
		seg, err = v1.VerifSegment(true, fk, np, ciphers[c.Cipher], data, c.From, c.FromLast)
	} else {
		seg, err = encv1ref.SealOne(data, fk, np, c.Cipher, c.From, c.FromLast)
	}
	if err != nil {
		return "machinery", err.Error()
	}
	same := c.From == c.To && c.FromLast == c.ToLast
	pt, err := v1.VerifSegment(false, fk, np, ciphers[c.Cipher], seg, c.To, c.ToLast)
	switch {
	case same && (err != nil || !bytes.Equal(pt, data)):
		return "segment-binding:own-position-refused", fmt.Sprintf("a segment sealed by %s for position %d (last=%v, %s) is not opened at that position: %v", c.Sealer, c.From, c.FromLast, ciphers[c.Cipher], err)
	case !same && err == nil:
		return "segment-binding:accepted-at-another-position", fmt.Sprintf("a segment sealed by %s for position %d (last=%v, %s) is accepted at position %d (last=%v): a document in which the segment was moved there (segments dropped, duplicated or reordered by that distance) would be released", c.Sealer, c.From, c.FromLast, ciphers[c.Cipher], c.To, c.ToLast)
	case !same && len(pt) != 0:
		return "segment-binding:bytes-released-on-refusal", fmt.Sprintf("refusing the segment of position %d at position %d released %d bytes", c.From, c.To, len(pt))
	}
	return "", ""
}

func run(r *enumx.Run, replay *enumx.ReplayCase) {
	if replay != nil {
		var c Case
		if err := json.Unmarshal(replay.Case, &c); err != nil {
			panic(err)
		}
		if key, msg := evalCase(&c); key != "" {
			r.Violation(key, msg, &c)
		}
		return
	}
	r.Rule(fmt.Sprintf("segment binding behind the dropped/duplicated/reordered/truncated clauses, for positions no affordable document reaches: a segment sealed (by kit's EncryptSegment and by the reference implementation) for position (i, last_i) is handed to kit's DecryptSegment at position (j, last_j) for EVERY ordered pair over %d counters (0..3, 255..257, 65535..65538, 2^24-1..2^24+1, 2^31, 2^31+1, 2^32-2, 2^32-1, every 2^b and 2^b+1, 0xA5 in each byte position and its successor) x 2 finalities, under both ciphers: it must open (to the sealed bytes) exactly when the positions are equal and release nothing otherwise. non-trivial = every evaluation (each is a distinct point).", len(counters)))
	var cases []*Case
	for cph := 1; cph <= 2; cph++ {
		for _, sealer := range []string{"kit", "reference"} {
			for _, i := range counters {
				for _, li := range []bool{false, true} {
					for _, j := range counters {
						for _, lj := range []bool{false, true} {
							cases = append(cases, &Case{Cipher: cph, Sealer: sealer, From: i, FromLast: li, To: j, ToLast: lj})
						}
					}
				}
			}
		}
	}
	done := r.Parallel(len(cases), func(i int) {
		if key, msg := evalCase(cases[i]); key != "" {
			b, _ := json.Marshal(cases[i])
			r.Violation(key, msg+"\ncase: "+string(b), cases[i])
		}
		r.Count(1, 1)
	})
	if done == len(cases) {
		r.Space(fmt.Sprintf("segment binding: %d points = 2 ciphers x 2 sealers x (%d counters x 2 finalities)^2", len(cases), len(counters)))
	} else {
		r.Incomplete(fmt.Sprintf("segment binding: %d of %d", done, len(cases)))
	}
	r.Sample(cases[len(cases)/3])
	r.Sample(&Case{Cipher: 2, Sealer: "kit", From: 1, To: 65537})
}
