// Supplementary part of C02. "Every document has a file key and a nonce prefix
// of its own" is what the tamper rules rest on (two documents sharing both can
// be spliced into each other and no reader can tell). Encrypt draws them
// without any synchronisation point an interleaving explorer could branch on,
// so concurrent Encrypt calls are sampled on the real runtime in a -race build:
// 8 goroutines, released together round after round, encrypt tiny documents.
//
// Findings: "data-race" (the race detector's report, picked up by the driver),
// "file-key-or-nonce-prefix-repeated" (any two documents of the process share
// a file key - as seen by the wrap function - or a nonce prefix), and, for such
// a pair, "spliced-document-accepted" when one document's header followed by
// the other's payload decrypts. Evidence next to the deciding part, never the
// deciding step.
package race

import (
	"bytes"
	"fmt"
	"io"
	"sync"
	"testing"

	v1 "github.com/dapr/kit/schemes/enc/v1"

	"verif/enumx"
	"verif/ref/encv1ref"
)

const workers = 8

var kek = func() []byte {
	k := make([]byte, 32)
	for i := range k {
		k[i] = byte(i*11 + 5)
	}
	return k
}()

type rec struct {
	g, i       int
	cipher     v1.Cipher
	fk, np     []byte
	doc, plain []byte
}

func encryptOne(g, i int, cph v1.Cipher) (*rec, error) {
	r := &rec{g: g, i: i, cipher: cph, plain: []byte(fmt.Sprintf("document %d of goroutine %d", i, g))}
	wrap := func(plain []byte, alg, name string, nonce []byte) ([]byte, []byte, error) {
		r.fk = append([]byte(nil), plain...)
		w, err := encv1ref.AESKWWrap(kek, plain)
		return w, nil, err
	}
	stream, err := v1.Encrypt(bytes.NewReader(r.plain), v1.EncryptOptions{WrapKeyFn: wrap, Algorithm: v1.KeyAlgorithmAES256KW, KeyName: "k", Cipher: &cph})
	if err != nil {
		return nil, err
	}
	if r.doc, err = io.ReadAll(stream); err != nil {
		return nil, err
	}
	h, err := encv1ref.SplitHeader(r.doc)
	if err != nil {
		return nil, err
	}
	m, err := encv1ref.ParseManifest(h.ManifestRaw)
	if err != nil {
		return nil, err
	}
	r.np = m.NoncePrefix
	return r, nil
}

func unwrap(w []byte, alg, name string, nonce, tag []byte) ([]byte, error) {
	return encv1ref.AESKWUnwrap(kek, w)
}

func TestCheck(t *testing.T) {
	enumx.Main(t, "C02", "race-sampling", func(r *enumx.Run, replay *enumx.ReplayCase) {
		r.Rule("SUPPLEMENTARY, sampling: 8 goroutines, released together at the start of every round, each encrypt 16 tiny documents per round (AES-GCM and CHACHA20-POLY1305 alternating) on the real runtime in a -race build; over all documents of the process the file keys (as the wrap function saw them) and the nonce prefixes (manifest) must be pairwise distinct, the race detector must stay quiet, and for a repeated pair the header of one followed by the payload of the other must be rejected by Decrypt. Not exhaustive and not the deciding step for C02.")
		r.Assume("the Go race detector reports only races that actually occur in the sampled schedules")
		if replay != nil {
			fmt.Println("replay: a sampled schedule cannot be replayed; re-run the part")
			return
		}
		rounds := 40
		if r.Thorough() {
			rounds = 400
		}
		const perRound = 16
		var mu sync.Mutex
		var all []*rec
		errs := 0
		done := 0
		for round := 0; round < rounds && !r.Expired(); round++ {
			start := make(chan struct{})
			var wg sync.WaitGroup
			for g := 0; g < workers; g++ {
				g := g
				wg.Add(1)
				go func() {
					defer wg.Done()
					var mine []*rec
					<-start
					for i := 0; i < perRound; i++ {
						cph := v1.CipherAESGCM
						if (g+i)%2 == 1 {
							cph = v1.CipherChaCha20Poly1305
						}
						rc, err := encryptOne(g, round*perRound+i, cph)
						if err != nil {
							mu.Lock()
							errs++
							if errs <= 5 {
								r.Violation("concurrent-encrypt-fails", fmt.Sprintf("Encrypt in goroutine %d, round %d: %v", g, round, err), nil)
							}
							mu.Unlock()
							continue
						}
						mine = append(mine, rc)
					}
					mu.Lock()
					all = append(all, mine...)
					mu.Unlock()
				}()
			}
			close(start)
			wg.Wait()
			done++
		}
		// pairwise distinctness
		byKey, byNP := map[string]*rec{}, map[string]*rec{}
		repeated, spliced := 0, 0
		pair := func(a, b *rec, what string) {
			repeated++
			if repeated <= 20 {
				r.Violation("file-key-or-nonce-prefix-repeated", fmt.Sprintf("document %d of goroutine %d and document %d of goroutine %d share their %s (file keys %x / %x, nonce prefixes %x / %x)", a.i, a.g, b.i, b.g, what, a.fk, b.fk, a.np, b.np), nil)
			}
			if a.cipher != b.cipher || bytes.Equal(a.plain, b.plain) {
				return
			}
			ha, _ := encv1ref.SplitHeader(a.doc)
			hb, _ := encv1ref.SplitHeader(b.doc)
			forged := append(append([]byte{}, a.doc[:ha.PayloadOffset]...), b.doc[hb.PayloadOffset:]...)
			dec, err := v1.Decrypt(bytes.NewReader(forged), v1.DecryptOptions{UnwrapKeyFn: unwrap})
			if err != nil {
				return
			}
			out, err := io.ReadAll(dec)
			if err == nil && !bytes.Equal(out, a.plain) {
				spliced++
				if spliced <= 20 {
					r.Violation("spliced-document-accepted", fmt.Sprintf("the header of document %d of goroutine %d followed by the payload of document %d of goroutine %d decrypts to %q with a clean EOF", a.i, a.g, b.i, b.g, out), nil)
				}
			}
		}
		for _, rc := range all {
			if o, ok := byKey[string(rc.fk)]; ok {
				pair(o, rc, "file key")
			} else {
				byKey[string(rc.fk)] = rc
			}
			if o, ok := byNP[string(rc.np)]; ok {
				if !bytes.Equal(o.fk, rc.fk) {
					pair(o, rc, "nonce prefix")
				}
			} else {
				byNP[string(rc.np)] = rc
			}
		}
		// every document must still decrypt
		for _, rc := range all {
			dec, err := v1.Decrypt(bytes.NewReader(rc.doc), v1.DecryptOptions{UnwrapKeyFn: unwrap})
			var out []byte
			if err == nil {
				out, err = io.ReadAll(dec)
			}
			if err != nil || !bytes.Equal(out, rc.plain) {
				r.Violation("concurrently-encrypted-document-does-not-decrypt", fmt.Sprintf("document %d of goroutine %d: %v", rc.i, rc.g, err), nil)
			}
		}
		n := int64(len(all))
		r.Count(n, n)
		r.Set("rounds", done)
		r.Set("goroutines", workers)
		r.Set("documents", n)
		r.Set("repeated_pairs", repeated)
		r.Sample(map[string]any{"round": 0, "goroutines": workers, "encrypts_per_goroutine_and_round": perRound})
		if done < rounds {
			r.Incomplete(fmt.Sprintf("%d of %d rounds run when the budget expired", done, rounds))
		}
	})
}
