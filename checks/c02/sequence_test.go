package c02

import (
	"bytes"
	"fmt"
	"io"
	"strconv"
	"sync/atomic"

	v1 "github.com/dapr/kit/schemes/enc/v1"

	"verif/checks/encenv"
)

// Two-document sequences: whatever an earlier Decrypt in the same process did
// - ran to its end, failed in the middle of its stream, was abandoned unread or
// dropped after a partial read - the next Decrypt must be judged exactly as if
// it ran alone. The first document is the user's own or an attacker's: another
// file key (that the vault unwraps: anybody can have a key wrapped) under the
// SAME nonce prefix and cipher, both of which are public in the manifest.
//
// Every sequence, and every "alone" reference run, gets documents with a nonce
// prefix of its own, so that sequences running side by side share nothing by
// construction and the verdict does not depend on the scheduler.

// Step is one Decrypt call.
type Step struct {
	Base string `json:"base"` // "own" (file key A) or "attacker" (file key C): whose document the bytes start from
	Muts []Mut  `json:"muts"`
	Read string `json:"read"` // "all", "none" (stream abandoned unread), or a byte count (read that much, then drop the stream)
}

// Seq is an ordered pair of Decrypt calls.
type Seq struct {
	First  Step `json:"first"`
	Second Step `json:"second"`
	// Overlap: the first stream is still open (partly read) while the second
	// Decrypt runs and is read to its end afterwards; the FIRST stream is then
	// judged too: what it yields in all must obey the oracle for its document.
	Overlap bool `json:"first_read_to_its_end_afterwards,omitempty"`
}

var slotCounter atomic.Uint32

type slotDocs struct{ own, att *built }

func newSlotDocs(cipher, n int) *slotDocs {
	s := slotCounter.Add(1)
	np := []byte{'S', byte(s >> 24), byte(s >> 16), byte(s >> 8), byte(s), 0x5E, 0x71}
	return &slotDocs{own: build(cipher, n, fkA, np, 0x01), att: build(cipher, n, fkC, np, 0x5A)}
}

func (sd *slotDocs) lookup(family, cipher, n int) *built {
	switch {
	case family == 0 && n == sd.own.n:
		return sd.own
	case family == 3 && n == sd.att.n:
		return sd.att
	}
	return nil
}

// runStep performs one Decrypt; the returned stream, when not nil, has not
// been read to its end and must be drained later.
func runStep(st *Step, sd *slotDocs) (mutated, out []byte, err error, rest io.Reader, ok bool) {
	base := sd.own
	if st.Base == "attacker" {
		base = sd.att
	}
	d := base.doc
	for _, m := range st.Muts {
		if d, ok = apply(d, m, base, sd.lookup); !ok {
			return nil, nil, nil, nil, false
		}
	}
	src := encenv.NewSource(d)
	stream, err := encenv.KitDecrypt(src, v1.DecryptOptions{UnwrapKeyFn: kw.UnwrapFn(keyName, nil, nil)})
	if err != nil {
		return d, nil, err, nil, true
	}
	switch st.Read {
	case "all", "":
		out, err = (&encenv.Consumer{}).ReadAll(stream, len(d))
		return d, out, err, nil, true
	case "none":
		return d, nil, nil, stream, true
	}
	n, _ := strconv.Atoi(st.Read)
	buf := make([]byte, n)
	k, err := io.ReadFull(stream, buf)
	if err != nil {
		return d, buf[:k], err, nil, true // the stream ended or failed earlier: nothing left to abandon
	}
	return d, buf[:k], nil, stream, true
}

// runSeq judges the second Decrypt of a sequence: by the C02 oracle, and
// against the same document decrypted alone.
func runSeq(c *Case) verdict {
	alone := newSlotDocs(c.Cipher, c.Len)
	_, outA, errA, _, ok := runStep(&c.Seq.Second, alone)
	if !ok {
		return verdict{}
	}
	sd := newSlotDocs(c.Cipher, c.Len)
	mut1, out1, err1, rest, ok := runStep(&c.Seq.First, sd)
	if !ok {
		return verdict{}
	}
	mutated, outB, errB, _, _ := runStep(&c.Seq.Second, sd)
	if rest != nil && c.Seq.Overlap {
		more, err := (&encenv.Consumer{}).ReadAll(rest, c.Len)
		out1, err1 = append(out1, more...), err
		base1 := sd.own
		if c.Seq.First.Base == "attacker" {
			base1 = sd.att
		}
		j1 := &Case{Cipher: c.Cipher, Len: c.Len, Muts: c.Seq.First.Muts, FailAt: -1}
		if v1 := judge(j1, base1, mut1, base1.p, out1, err1); v1.class != "" {
			v1.key = "open-stream-disturbed-by-a-later-decrypt"
			v1.msg = "the FIRST stream, partly read before the second Decrypt and read to its end after it: " + v1.msg
			return v1
		}
	} else if rest != nil {
		io.Copy(io.Discard, rest) // let the abandoned goroutine finish
	}
	jc := &Case{Cipher: c.Cipher, Len: c.Len, Muts: c.Seq.Second.Muts, FailAt: -1}
	baseA, baseB := alone.own, sd.own
	if c.Seq.Second.Base == "attacker" { // its own, valid document: judged against its own plaintext
		baseA, baseB = alone.att, sd.att
	}
	vA := judge(jc, baseA, mutated, baseA.p, outA, errA)
	vB := judge(jc, baseB, mutated, baseB.p, outB, errB)
	same := bytes.Equal(outA, outB) && (errA == nil) == (errB == nil)
	switch {
	case same:
		return vB // whatever it is, the earlier Decrypt has nothing to do with it
	case vB.class != "":
		vB.key = "second-decrypt-accepts-what-it-rejects-alone"
		vB.msg += fmt.Sprintf("; decrypted alone, the same document yields %d bytes and err=%v", len(outA), errA)
		return vB
	default:
		_ = vA
		return verdict{class: "outcome-depends-on-an-earlier-decrypt", key: "outcome-depends-on-an-earlier-decrypt",
			msg: fmt.Sprintf("after the first Decrypt the second yields %d bytes and err=%v; decrypted alone it yields %d bytes and err=%v", len(outB), errB, len(outA), errA)}
	}
}

// enumSequences lists every ordered pair over the first- and second-step
// alphabets, for the two- and three-segment documents and both ciphers.
func enumSequences() []*Case {
	var out []*Case
	for cph := 1; cph <= 2; cph++ {
		for _, n := range []int{65537, 131077} {
			l := layoutOf(getDoc(0, cph, n).doc) // same layout for every document of this shape
			var firsts []Step
			for _, base := range []string{"attacker", "own"} {
				for _, rd := range []string{"all", "none", "1", "65536", "65537"} {
					firsts = append(firsts, Step{Base: base, Read: rd})
				}
				for k, sg := range l.segs {
					firsts = append(firsts, Step{Base: base, Read: "all", Muts: []Mut{{Op: "flip", A: sg[0], B: 0, Where: "segment-body"}}})
					firsts = append(firsts, Step{Base: base, Read: "all", Muts: []Mut{{Op: "flip", A: sg[1] - 1, B: 7, Where: "segment-tag"}}})
					firsts = append(firsts, Step{Base: base, Read: "all", Muts: []Mut{{Op: "trunc", A: (sg[0] + sg[1]) / 2, Where: "inside-segment"}}})
					if k < len(l.segs)-1 {
						firsts = append(firsts, Step{Base: base, Read: "all", Muts: []Mut{{Op: "trunc", A: sg[1], Where: "at-segment-boundary"}}})
						// a broken segment followed by more data, read partially and dropped
						firsts = append(firsts, Step{Base: base, Read: "1", Muts: []Mut{{Op: "flip", A: l.segs[k+1][0], B: 0, Where: "segment-body"}}})
					}
				}
				for _, m := range segOps(l) {
					firsts = append(firsts, Step{Base: base, Read: "all", Muts: []Mut{m}})
				}
				firsts = append(firsts, Step{Base: base, Read: "all", Muts: []Mut{{Op: "extend", A: 17, B: 0, Where: "zeros"}}})
			}
			seconds := []Step{{Base: "own", Read: "all"}, {Base: "own", Read: "all", Muts: []Mut{{Op: "payload-from", C: 3, L: n, Where: "other-key"}}}}
			for k, sg := range l.segs {
				seconds = append(seconds,
					Step{Base: "own", Read: "all", Muts: []Mut{{Op: "splice", A: k, B: k, C: 3, L: n, Where: "other-key"}}},
					Step{Base: "own", Read: "all", Muts: []Mut{{Op: "flip", A: sg[0], B: 0, Where: "segment-body"}}})
				if k < len(l.segs)-1 {
					seconds = append(seconds,
						Step{Base: "own", Read: "all", Muts: []Mut{{Op: "trunc", A: sg[1], Where: "at-segment-boundary"}}},
						Step{Base: "own", Read: "all", Muts: []Mut{{Op: "payload-from", C: 3, L: n, Where: "other-key"}, {Op: "trunc", A: sg[1], Where: "at-segment-boundary"}}})
				}
			}
			seconds = append(seconds, Step{Base: "attacker", Read: "all"})
			for _, f := range firsts {
				for _, s2 := range seconds {
					out = append(out, &Case{Cipher: cph, Len: n, FailAt: -1, Seq: &Seq{First: f, Second: s2}})
				}
			}
			// the first stream stays open across the second Decrypt
			for _, base := range []string{"own", "attacker"} {
				for _, rd := range []string{"none", "1", "100", "65536", "65537"} {
					fs := []Step{{Base: base, Read: rd}, {Base: base, Read: rd, Muts: []Mut{{Op: "flip", A: l.segs[len(l.segs)-1][0], B: 0, Where: "segment-body"}}}}
					for _, f := range fs {
						for _, s2 := range seconds {
							out = append(out, &Case{Cipher: cph, Len: n, FailAt: -1, Seq: &Seq{First: f, Second: s2, Overlap: true}})
						}
					}
				}
			}
		}
	}
	return out
}
