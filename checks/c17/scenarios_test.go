package c17

import (
	"crypto/aes"
	"crypto/cipher"
	"crypto/rsa"
	"crypto/x509"
	"encoding/base64"
	"encoding/json"
	"encoding/pem"
	"fmt"
	"strings"
	"sync"

	kit "github.com/dapr/kit/crypto"
	"github.com/dapr/kit/crypto/aescbcaead"
	"github.com/dapr/kit/crypto/aeskw"
	"github.com/dapr/kit/crypto/padding"
	"github.com/lestrrat-go/jwx/v2/jwk"

	"verif/ref/cryptokeys"
	"verif/ref/cryptoref"
)

// guarded runs f and turns a panic into an outcome.
func guarded(f func() outcome) (o outcome) {
	defer func() {
		if x := recover(); x != nil {
			o = outcome{kind: "panic", err: fmt.Sprint(x), pval: x}
		}
	}()
	return f()
}

func result(err error, names []string, rs ...[]byte) outcome {
	o := outcome{kind: "ok", results: rs, names: names}
	if err != nil {
		o.kind, o.err = "error", err.Error()
	}
	return o
}

func data(label string, n int) []byte { return cryptokeys.Bytes("c17-"+label, n) }

// family is the algorithm family used in finding keys.
func family(a cryptoref.Alg, known bool) string {
	if !known {
		return "unsupported"
	}
	switch a.Class {
	case cryptoref.CBCPad:
		return "CBC"
	case cryptoref.CBCNoPad:
		return "CBC-NOPAD"
	case cryptoref.GCM, cryptoref.CBCHMAC, cryptoref.C20P, cryptoref.XC20P:
		return "AEAD"
	case cryptoref.KW:
		return "KW"
	case cryptoref.RSA15, cryptoref.OAEP:
		return "RSA"
	case cryptoref.SigRSAPKCS1, cryptoref.SigRSAPSS:
		return "RSA-signature"
	case cryptoref.SigECDSA:
		return "ECDSA"
	case cryptoref.SigEdDSA:
		return "EdDSA"
	}
	return "unsupported"
}

// blockLens are the message lengths: around the AES block boundaries (quick),
// every length 0..34 and the next two boundaries (thorough).
var blockLens = []int{0, 1, 15, 16, 17, 31, 32, 33}

func setLens(thorough bool) {
	if !thorough {
		return
	}
	blockLens = blockLens[:0]
	for i := 0; i <= 34; i++ {
		blockLens = append(blockLens, i)
	}
	blockLens = append(blockLens, 47, 48, 49, 63, 64, 65)
}

func ptLensFor(a cryptoref.Alg) (valid, invalid []int) {
	switch a.Class {
	case cryptoref.CBCNoPad:
		for _, n := range blockLens {
			if n%16 == 0 {
				valid = append(valid, n)
			} else {
				invalid = append(invalid, n)
			}
		}
		return valid, invalid
	case cryptoref.KW:
		return []int{16, 24, 32, 40}, []int{0, 8, 15, 17}
	}
	return blockLens, nil
}

// symmetric algorithm names of the space: everything the package lists, one
// constant it does not support and one junk name (the unknown-algorithm path).
func symNames() []string {
	return append(append([]string{}, kit.SupportedSymmetricAlgorithms()...), kit.Algorithm_A128GCMKW, "NOPE-ALG")
}

// ---------------------------------------------------------------------------
// padding

func padScenario(id string, buf []byte, size int, role string) *scenario {
	return &scenario{
		id: id, site: "PadPKCS7", fn: "padding.PadPKCS7",
		args: []arg{in(role, buf)},
		call: func(a [][]byte) outcome {
			return guarded(func() outcome {
				out, err := padding.PadPKCS7(a[0], size)
				return result(err, []string{"padded"}, out)
			})
		},
	}
}

func paddingScenarios() (out []*scenario) {
	lens := []int{0, 1, 7, 8, 15, 16, 17, 31, 32, 33}
	for _, size := range []int{16, 8, 2, 255, 0, 1, 256, -1} {
		for _, n := range lens {
			out = append(out, padScenario(fmt.Sprintf("padding.PadPKCS7|size=%d|len=%d", size, n), data("pad-buf", n), size, "buf"))
		}
	}
	unpad := func(id string, buf []byte, size int) *scenario {
		return &scenario{
			id: id, site: "UnpadPKCS7", fn: "padding.UnpadPKCS7",
			args: []arg{in("buf", buf)},
			call: func(a [][]byte) outcome {
				return guarded(func() outcome {
					out, err := padding.UnpadPKCS7(a[0], size)
					return result(err, []string{"unpadded"}, out)
				})
			},
			mayAlias: map[string]bool{"buf": true}, // contract: returns a sub-slice of its input
		}
	}
	for _, size := range []int{16, 8} {
		for _, n := range lens {
			good := cryptoref.Pad(data("unpad-buf", n), size)
			out = append(out, unpad(fmt.Sprintf("padding.UnpadPKCS7|ok|size=%d|len=%d", size, n), good, size))
			bad := clone(good)
			bad[len(bad)-1] = 0
			out = append(out, unpad(fmt.Sprintf("padding.UnpadPKCS7|bad-padding|size=%d|len=%d", size, n), bad, size))
			bad2 := clone(good)
			if int(bad2[len(bad2)-1]) > 1 {
				bad2[len(bad2)-2] ^= 0x40
				out = append(out, unpad(fmt.Sprintf("padding.UnpadPKCS7|bad-padding-inner|size=%d|len=%d", size, n), bad2, size))
			}
			out = append(out, unpad(fmt.Sprintf("padding.UnpadPKCS7|bad-length|size=%d|len=%d", size, n), good[:len(good)-1], size))
		}
	}
	for _, size := range []int{0, 1, 256} {
		out = append(out, unpad(fmt.Sprintf("padding.UnpadPKCS7|bad-size|size=%d", size), cryptoref.Pad(data("unpad-buf", 5), 16), size))
	}
	out = append(out, unpad("padding.UnpadPKCS7|empty", []byte{}, 16))
	return out
}

// ---------------------------------------------------------------------------
// aeskw

func wrapScenario(id string, kek, cek []byte, role string) *scenario {
	return &scenario{
		id: id, site: "aeskw.Wrap", fn: "aeskw.Wrap",
		args: []arg{in(role, cek)},
		call: func(a [][]byte) outcome {
			return guarded(func() outcome {
				blk, err := aes.NewCipher(kek)
				if err != nil {
					return result(err, nil)
				}
				out, err := aeskw.Wrap(blk, a[0])
				return result(err, []string{"wrapped"}, out)
			})
		},
	}
}

func unwrapScenario(id string, kek, wrapped []byte, role string) *scenario {
	return &scenario{
		id: id, site: "aeskw.Unwrap", fn: "aeskw.Unwrap",
		args: []arg{in(role, wrapped)},
		call: func(a [][]byte) outcome {
			return guarded(func() outcome {
				blk, err := aes.NewCipher(kek)
				if err != nil {
					return result(err, nil)
				}
				out, err := aeskw.Unwrap(blk, a[0])
				return result(err, []string{"unwrapped"}, out)
			})
		},
	}
}

func kwScenarios() (out []*scenario) {
	for _, ks := range []int{16, 24, 32} {
		kek := data("kek", ks)
		for _, n := range []int{0, 5, 8, 16, 17, 24, 32, 40} {
			out = append(out, wrapScenario(fmt.Sprintf("aeskw.Wrap|kek=%d|len=%d", ks, n), kek, data("cek", n), "cek"))
		}
		for _, n := range []int{16, 24, 32, 40} {
			w, err := cryptoref.KWWrap(kek, data("cek", n))
			if err != nil {
				panic(err)
			}
			out = append(out, unwrapScenario(fmt.Sprintf("aeskw.Unwrap|ok|kek=%d|len=%d", ks, n), kek, w, "wrapped"))
			bad := clone(w)
			bad[len(bad)-1] ^= 1
			out = append(out, unwrapScenario(fmt.Sprintf("aeskw.Unwrap|integrity-failure|kek=%d|len=%d", ks, n), kek, bad, "wrapped"))
			out = append(out, unwrapScenario(fmt.Sprintf("aeskw.Unwrap|trailing-bytes|kek=%d|len=%d", ks, n), kek, append(clone(w), 1, 2, 3), "wrapped"))
			// (inputs below 16 bytes make Unwrap panic before it touches anything: C07's subject)
		}
	}
	return out
}

// ---------------------------------------------------------------------------
// aescbcaead

type ctor struct {
	name   string
	new    func([]byte) (cipher.AEAD, error)
	params cryptoref.CBCHMACParams
}

func ctors() []ctor {
	p := func(n string) cryptoref.CBCHMACParams {
		a, _ := cryptoref.Lookup(n)
		return cryptoref.CBCHMACParamsOf(a)
	}
	p384 := p("A192CBC-HS384")
	p384.EncKeyLen = 32
	return []ctor{
		{"NewAESCBC128SHA256", aescbcaead.NewAESCBC128SHA256, p("A128CBC-HS256")},
		{"NewAESCBC192SHA384", aescbcaead.NewAESCBC192SHA384, p("A192CBC-HS384")},
		{"NewAESCBC256SHA384", aescbcaead.NewAESCBC256SHA384, p384},
		{"NewAESCBC256SHA512", aescbcaead.NewAESCBC256SHA512, p("A256CBC-HS512")},
	}
}

func ctorFor(alg string) ctor {
	for i, n := range []string{"A128CBC-HS256", "A192CBC-HS384", "", "A256CBC-HS512"} {
		if n == alg {
			return ctors()[i]
		}
	}
	panic("no constructor for " + alg)
}

// dst variants of Seal / Open.
const (
	dstNil     = "dst=nil"
	dstEmpty   = "dst=empty"
	dstPrefix  = "dst=4-byte-prefix"
	dstInPlace = "dst=input[:0]"
)

var dstVariants = []string{dstNil, dstEmpty, dstPrefix, dstInPlace}

// sealScenario: args are (dst), nonce, plaintext, aad, key - the constructor is
// part of the call, so the AEAD's key material lives in the arena as well.
func sealScenario(id string, c ctor, key, nonce, pt, aad []byte, dv string) *scenario {
	sc := &scenario{id: id, site: "aescbcaead.Seal", fn: "aescbcaead." + c.name + ".Seal"}
	ptArg := in("plaintext", pt)
	switch dv {
	case dstNil:
		sc.args = []arg{nilArg("dst")}
	case dstEmpty:
		sc.args = []arg{{role: "dst", data: []byte{}, carve: true, dst: true}}
		sc.mayAlias = map[string]bool{"dst": true}
	case dstPrefix:
		sc.args = []arg{{role: "dst", data: []byte{0xD0, 0xD1, 0xD2, 0xD3}, carve: true, dst: true, keep: 4}}
		sc.mayAlias = map[string]bool{"dst": true}
	case dstInPlace:
		// cipher.AEAD: "To reuse plaintext's storage for the encrypted output,
		// use plaintext[:0] as dst": the plaintext buffer IS the destination
		sc.args = []arg{nilArg("dst")}
		ptArg.dst, ptArg.keep = true, 0
		sc.mayAlias = map[string]bool{"plaintext": true}
	}
	sc.args = append(sc.args, in("nonce", nonce), ptArg, in("aad", aad), in("key", key))
	if aad == nil {
		sc.args[3] = nilArg("aad")
	}
	sc.call = func(a [][]byte) outcome {
		return guarded(func() outcome {
			ae, err := c.new(a[4])
			if err != nil {
				return result(err, nil)
			}
			dst := a[0]
			if dv == dstInPlace {
				dst = a[2][:0]
			}
			return result(nil, []string{"sealed"}, ae.Seal(dst, a[1], a[2], a[3]))
		})
	}
	if dv != dstInPlace {
		sc.inner = func() *scenario { return padScenario(id+"|inner", pt, 16, "plaintext") }
	}
	return sc
}

func openScenario(id string, c ctor, key, nonce, ct, aad []byte, dv string) *scenario {
	sc := &scenario{id: id, site: "aescbcaead.Open", fn: "aescbcaead." + c.name + ".Open"}
	ctArg := in("ciphertext", ct)
	switch dv {
	case dstNil:
		sc.args = []arg{nilArg("dst")}
	case dstEmpty:
		sc.args = []arg{{role: "dst", data: []byte{}, carve: true, dst: true}}
		sc.mayAlias = map[string]bool{"dst": true}
	case dstPrefix:
		sc.args = []arg{{role: "dst", data: []byte{0xD0, 0xD1, 0xD2, 0xD3}, carve: true, dst: true, keep: 4}}
		sc.mayAlias = map[string]bool{"dst": true}
	case dstInPlace:
		sc.args = []arg{nilArg("dst")}
		ctArg.dst, ctArg.keep = true, 0
		sc.mayAlias = map[string]bool{"ciphertext": true}
	}
	sc.args = append(sc.args, in("nonce", nonce), ctArg, in("aad", aad), in("key", key))
	if aad == nil {
		sc.args[3] = nilArg("aad")
	}
	sc.call = func(a [][]byte) outcome {
		return guarded(func() outcome {
			ae, err := c.new(a[4])
			if err != nil {
				return result(err, nil)
			}
			dst := a[0]
			if dv == dstInPlace {
				dst = a[2][:0]
			}
			out, err := ae.Open(dst, a[1], a[2], a[3])
			return result(err, []string{"opened"}, out)
		})
	}
	return sc
}

// badPaddingCBCHMAC builds E||T with a valid tag over an E whose plaintext
// does not end in PKCS#7 padding (the path on which Open has already written
// to dst when it fails).
func badPaddingCBCHMAC(p cryptoref.CBCHMACParams, key, iv, aad []byte, blocks int) []byte {
	nopad, _ := cryptoref.Lookup(map[int]string{16: "A128CBC-NOPAD", 24: "A192CBC-NOPAD", 32: "A256CBC-NOPAD"}[p.EncKeyLen])
	plain := make([]byte, 16*blocks) // ends in 0x00: never valid padding
	e, _, err := cryptoref.Encrypt(nopad, key[len(key)-p.EncKeyLen:], iv, plain, nil)
	if err != nil {
		panic(err)
	}
	return append(e, cryptoref.CBCHMACTag(p, key, iv, e, aad)...)
}

func aeadScenarios() (out []*scenario) {
	iv := data("iv", 16)
	aad5 := data("aad", 5)
	for _, c := range ctors() {
		ks := c.params.EncKeyLen + c.params.MacKeyLen
		key := data("cbchmac-key", ks)
		for _, dv := range dstVariants {
			for _, n := range blockLens {
				for ai, aad := range [][]byte{nil, aad5} {
					pt := data("pt", n)
					out = append(out, sealScenario(fmt.Sprintf("aescbcaead.Seal|%s|ok|len=%d|aad#%d|%s", c.name, n, ai, dv), c, key, iv, pt, aad, dv))
					e, t, err := cryptoref.CBCHMACSeal(c.params, key, iv, pt, aad)
					if err != nil {
						panic(err)
					}
					ct := append(clone(e), t...)
					out = append(out, openScenario(fmt.Sprintf("aescbcaead.Open|%s|ok|len=%d|aad#%d|%s", c.name, n, ai, dv), c, key, iv, ct, aad, dv))
					bad := clone(ct)
					bad[len(bad)-1] ^= 1
					out = append(out, openScenario(fmt.Sprintf("aescbcaead.Open|%s|auth-failure|len=%d|aad#%d|%s", c.name, n, ai, dv), c, key, iv, bad, aad, dv))
				}
			}
			for _, blocks := range []int{1, 2} {
				out = append(out, openScenario(fmt.Sprintf("aescbcaead.Open|%s|bad-padding|blocks=%d|%s", c.name, blocks, dv), c, key, iv, badPaddingCBCHMAC(c.params, key, iv, aad5, blocks), aad5, dv))
			}
			out = append(out, openScenario(fmt.Sprintf("aescbcaead.Open|%s|shorter-than-tag|%s", c.name, dv), c, key, iv, data("short", c.params.TLen-1), aad5, dv))
			// Seal with a nonce of the wrong size: panics by contract
			out = append(out, sealScenario(fmt.Sprintf("aescbcaead.Seal|%s|bad-nonce|%s", c.name, dv), c, key, iv[:12], data("pt", 17), aad5, dv))
			// constructor refusing the key
			out = append(out, sealScenario(fmt.Sprintf("aescbcaead.Seal|%s|bad-key-size|%s", c.name, dv), c, data("cbchmac-key", ks+1), iv, data("pt", 17), aad5, dv))
		}
	}
	return out
}

// ---------------------------------------------------------------------------
// crypto: symmetric entry points

type symCase struct {
	alg   string
	path  string
	key   []byte
	nonce []byte
	data  []byte // plaintext or ciphertext
	tag   []byte
	aad   []byte
}

func symEncryptScenario(entry string, c symCase, n int) *scenario {
	ref, known := cryptoref.Lookup(c.alg)
	known = known && ref.Symmetric()
	id := fmt.Sprintf("crypto.%s|%s|%s|len=%d", entry, c.alg, c.path, n)
	sc := &scenario{id: id, site: entry + "-" + family(ref, known), fn: "crypto." + entry}
	sc.args = []arg{in("plaintext", c.data), in("key", c.key), in("nonce", c.nonce), in("aad", c.aad)}
	if c.aad == nil {
		sc.args[3] = nilArg("aad")
	}
	sc.call = func(a [][]byte) outcome {
		return guarded(func() outcome {
			k := cryptokeys.OctKeyFrom(a[1]) // the JWK shares the arena's key bytes
			var ct, tag []byte
			var err error
			if entry == "Encrypt" {
				ct, tag, err = kit.Encrypt(a[0], c.alg, k, a[2], a[3])
			} else {
				ct, tag, err = kit.EncryptSymmetric(a[0], c.alg, k, a[2], a[3])
			}
			return result(err, []string{"ciphertext", "tag"}, ct, tag)
		})
	}
	sc.inner = func() *scenario {
		if entry == "Encrypt" {
			return symEncryptScenario("EncryptSymmetric", c, n)
		}
		if !known || !strings.HasPrefix(c.path, "ok") {
			return nil
		}
		switch ref.Class {
		case cryptoref.CBCPad:
			return padScenario(id+"|inner", c.data, 16, "plaintext")
		case cryptoref.CBCHMAC:
			return sealScenario(id+"|inner", ctorFor(c.alg), c.key, c.nonce, c.data, c.aad, dstNil)
		case cryptoref.KW:
			return wrapScenario(id+"|inner", c.key, c.data, "plaintext")
		}
		return nil
	}
	return sc
}

func symDecryptScenario(entry string, c symCase, n int) *scenario {
	ref, known := cryptoref.Lookup(c.alg)
	known = known && ref.Symmetric()
	id := fmt.Sprintf("crypto.%s|%s|%s|len=%d", entry, c.alg, c.path, n)
	sc := &scenario{id: id, site: entry + "-" + family(ref, known), fn: "crypto." + entry}
	sc.args = []arg{in("ciphertext", c.data), in("key", c.key), in("nonce", c.nonce), in("tag", c.tag), in("aad", c.aad)}
	if c.aad == nil {
		sc.args[4] = nilArg("aad")
	}
	sc.call = func(a [][]byte) outcome {
		return guarded(func() outcome {
			k := cryptokeys.OctKeyFrom(a[1])
			var pt []byte
			var err error
			if entry == "Decrypt" {
				pt, err = kit.Decrypt(a[0], c.alg, k, a[2], a[3], a[4])
			} else {
				pt, err = kit.DecryptSymmetric(a[0], c.alg, k, a[2], a[3], a[4])
			}
			return result(err, []string{"plaintext"}, pt)
		})
	}
	sc.inner = func() *scenario {
		if entry == "Decrypt" {
			return symDecryptScenario("DecryptSymmetric", c, n)
		}
		if known && ref.Class == cryptoref.KW && len(c.key) == ref.KeyLen && len(c.data) >= 16 {
			return unwrapScenario(id+"|inner", c.key, c.data, "ciphertext")
		}
		return nil
	}
	return sc
}

func symScenarios() (out []*scenario) {
	aad5 := data("aad", 5)
	for _, name := range symNames() {
		ref, known := cryptoref.Lookup(name)
		known = known && ref.Symmetric()
		if !known {
			// unknown-algorithm path: plausible arguments of every kind
			for _, entry := range []string{"EncryptSymmetric", "Encrypt"} {
				out = append(out, symEncryptScenario(entry, symCase{alg: name, path: "unknown-algorithm", key: data("key", 16), nonce: data("nonce", 12), data: data("pt", 17), aad: aad5}, 17))
			}
			for _, entry := range []string{"DecryptSymmetric", "Decrypt"} {
				out = append(out, symDecryptScenario(entry, symCase{alg: name, path: "unknown-algorithm", key: data("key", 16), nonce: data("nonce", 12), data: data("ct", 32), tag: data("tag", 16), aad: aad5}, 32))
			}
			continue
		}
		key := data("key", ref.KeyLen)
		// an algorithm that takes no nonce / tag still receives one: the ignored
		// argument must be left alone too
		nl, tl := ref.NonceLen, ref.TagLen
		if nl == 0 {
			nl = 12
		}
		if tl == 0 {
			tl = 16
		}
		nonce := data("nonce", nl)
		valid, invalid := ptLensFor(ref)
		for _, entry := range []string{"EncryptSymmetric", "Encrypt"} {
			for _, n := range valid {
				for ai, aad := range [][]byte{nil, aad5} {
					out = append(out, symEncryptScenario(entry, symCase{alg: name, path: fmt.Sprintf("ok|aad#%d", ai), key: key, nonce: nonce, data: data("pt", n), aad: aad}, n))
				}
				out = append(out, symEncryptScenario(entry, symCase{alg: name, path: "bad-key-size", key: data("key", ref.KeyLen+1), nonce: nonce, data: data("pt", n), aad: aad5}, n))
				out = append(out, symEncryptScenario(entry, symCase{alg: name, path: "short-key", key: data("key", 8), nonce: nonce, data: data("pt", n), aad: aad5}, n))
				if ref.NonceLen != 0 {
					out = append(out, symEncryptScenario(entry, symCase{alg: name, path: "bad-nonce", key: key, nonce: data("nonce", nl+1), data: data("pt", n), aad: aad5}, n))
				}
				if n == 0 || n == 16 || n == 17 {
					// the other sizes around each boundary, with the reduced layout set
					for _, ks := range []int{1, ref.KeyLen - 1, ref.KeyLen + 8} {
						sc := symEncryptScenario(entry, symCase{alg: name, path: fmt.Sprintf("key-size=%d", ks), key: data("key", ks), nonce: nonce, data: data("pt", n), aad: aad5}, n)
						sc.focus = "key"
						out = append(out, sc)
					}
					if ref.NonceLen != 0 {
						for _, x := range []int{0, 1, nl - 1, nl + 8} {
							sc := symEncryptScenario(entry, symCase{alg: name, path: fmt.Sprintf("nonce-size=%d", x), key: key, nonce: data("nonce", x), data: data("pt", n), aad: aad5}, n)
							sc.focus = "nonce"
							out = append(out, sc)
						}
					}
				}
			}
			for _, n := range invalid {
				out = append(out, symEncryptScenario(entry, symCase{alg: name, path: "bad-plaintext-length", key: key, nonce: nonce, data: data("pt", n), aad: aad5}, n))
			}
		}
		for _, entry := range []string{"DecryptSymmetric", "Decrypt"} {
			for _, n := range valid {
				for ai, aad := range [][]byte{nil, aad5} {
					ct, tag, err := cryptoref.Encrypt(ref, key, nonce[:ref.NonceLen], data("pt", n), aad)
					if err != nil {
						panic(err)
					}
					if ref.TagLen == 0 {
						tag = data("ignored-tag", tl)
					}
					mk := func(path string, c symCase) {
						c.alg, c.path = name, fmt.Sprintf("%s|aad#%d", path, ai)
						if c.key == nil {
							c.key = key
						}
						if c.nonce == nil {
							c.nonce = nonce
						}
						if c.data == nil {
							c.data = ct
						}
						if c.tag == nil {
							c.tag = tag
						}
						c.aad = aad
						out = append(out, symDecryptScenario(entry, c, n))
					}
					mk("ok", symCase{})
					mk("bad-key-size", symCase{key: data("key", ref.KeyLen+1)})
					if ref.NonceLen != 0 {
						mk("bad-nonce", symCase{nonce: data("nonce", nl+1)})
					}
					if ai == 1 && (n == 0 || n == 16 || n == 17) {
						mkf := func(path, focus string, c symCase) {
							mk(path, c)
							out[len(out)-1].focus = focus
						}
						for _, ks := range []int{1, ref.KeyLen - 1, ref.KeyLen + 8} {
							mkf(fmt.Sprintf("key-size=%d", ks), "key", symCase{key: data("key", ks)})
						}
						if ref.NonceLen != 0 {
							for _, x := range []int{0, 1, nl - 1, nl + 8} {
								mkf(fmt.Sprintf("nonce-size=%d", x), "nonce", symCase{nonce: data("nonce", x)})
							}
						}
						if ref.TagLen != 0 {
							for _, x := range []int{0, 1, tl + 1, tl + 8} {
								mkf(fmt.Sprintf("tag-size=%d", x), "tag", symCase{tag: append(clone(tag), make([]byte, 8)...)[:x]})
							}
						}
					}
					if ref.TagLen != 0 {
						mk("bad-tag-size", symCase{tag: tag[:len(tag)-1]})
						bad := clone(tag)
						bad[0] ^= 1
						mk("auth-failure-tag", symCase{tag: bad})
					}
					if ref.Authenticated() && len(ct) > 0 {
						bad := clone(ct)
						bad[len(bad)-1] ^= 1
						mk("auth-failure-ciphertext", symCase{data: bad})
					}
					switch ref.Class {
					case cryptoref.CBCPad:
						nopad, _ := cryptoref.Lookup(name + "-NOPAD")
						bp, _, err := cryptoref.Encrypt(nopad, key, nonce, make([]byte, 16+16*(n/16)), nil)
						if err != nil {
							panic(err)
						}
						mk("bad-padding", symCase{data: bp})
						mk("bad-ciphertext-length", symCase{data: ct[:len(ct)-1]})
					case cryptoref.CBCNoPad:
						mk("bad-ciphertext-length", symCase{data: append(clone(ct), 7)})
					case cryptoref.CBCHMAC:
						p := cryptoref.CBCHMACParamsOf(ref)
						et := badPaddingCBCHMAC(p, key, nonce, aad, 1+n/16)
						mk("bad-padding", symCase{data: et[:len(et)-p.TLen], tag: et[len(et)-p.TLen:]})
					}
				}
			}
		}
	}
	return out
}

// ---------------------------------------------------------------------------
// crypto: asymmetric entry points

func asymScenarios() (out []*scenario) {
	rsaPriv, rsaPub := cryptokeys.Asym(cryptokeys.RSAPriv, "A"), cryptokeys.Asym(cryptokeys.RSAPub, "A")
	ecPub := cryptokeys.Asym(cryptokeys.P256Pub, "A")
	label := data("label", 5)
	names := append(append([]string{}, kit.SupportedAsymmetricAlgorithms()...), kit.Algorithm_ECDH_ES, "NOPE-ALG")
	var enc func(entry, alg, path string, key jwk.Key, pt, lbl []byte, fam string) *scenario
	enc = func(entry, alg, path string, key jwk.Key, pt, lbl []byte, fam string) *scenario {
		sc := &scenario{id: fmt.Sprintf("crypto.%s|%s|asym:%s|len=%d", entry, alg, path, len(pt)), site: entry + "-" + fam, fn: "crypto." + entry}
		sc.args = []arg{in("plaintext", pt), in("label", lbl), in("nonce", data("nonce", 12))}
		if lbl == nil {
			sc.args[1] = nilArg("label")
		}
		sc.call = func(a [][]byte) outcome {
			return guarded(func() outcome {
				if entry == "Encrypt" {
					ct, tag, err := kit.Encrypt(a[0], alg, key, a[2], a[1])
					return result(err, []string{"ciphertext", "tag"}, ct, tag)
				}
				ct, err := kit.EncryptPublicKey(a[0], alg, key, a[1])
				return result(err, []string{"ciphertext"}, ct)
			})
		}
		if entry == "Encrypt" {
			sc.inner = func() *scenario { return enc("EncryptPublicKey", alg, path, key, pt, lbl, fam) }
		}
		return sc
	}
	var dec func(entry, alg, path string, key jwk.Key, ct, lbl []byte, fam string, n int) *scenario
	dec = func(entry, alg, path string, key jwk.Key, ct, lbl []byte, fam string, n int) *scenario {
		sc := &scenario{id: fmt.Sprintf("crypto.%s|%s|asym:%s|len=%d", entry, alg, path, n), site: entry + "-" + fam, fn: "crypto." + entry}
		sc.args = []arg{in("ciphertext", ct), in("label", lbl), in("nonce", data("nonce", 12)), in("tag", data("tag", 16))}
		if lbl == nil {
			sc.args[1] = nilArg("label")
		}
		sc.call = func(a [][]byte) outcome {
			return guarded(func() outcome {
				var pt []byte
				var err error
				if entry == "Decrypt" {
					pt, err = kit.Decrypt(a[0], alg, key, a[2], a[3], a[1])
				} else {
					pt, err = kit.DecryptPrivateKey(a[0], alg, key, a[1])
				}
				return result(err, []string{"plaintext"}, pt)
			})
		}
		if entry == "Decrypt" {
			sc.inner = func() *scenario { return dec("DecryptPrivateKey", alg, path, key, ct, lbl, fam, n) }
		}
		return sc
	}
	for _, name := range names {
		ref, known := cryptoref.Lookup(name)
		known = known && ref.AsymEnc()
		fam := family(ref, known)
		for _, entry := range []string{"EncryptPublicKey", "Encrypt"} {
			if !known {
				out = append(out, enc(entry, name, "unknown-algorithm", rsaPub.JWK, data("pt", 17), label, fam))
				continue
			}
			max := ref.RSAMaxPlaintext(256)
			for _, n := range []int{0, 1, 32, max} {
				out = append(out, enc(entry, name, "ok", rsaPub.JWK, data("pt", n), label, fam))
			}
			out = append(out, enc(entry, name, "ok-nil-label", rsaPub.JWK, data("pt", 16), nil, fam))
			out = append(out, enc(entry, name, "ok-private-key-given", rsaPriv.JWK, data("pt", 16), label, fam))
			out = append(out, enc(entry, name, "message-too-long", rsaPub.JWK, data("pt", max+1), label, fam))
			out = append(out, enc(entry, name, "wrong-key-kind", ecPub.JWK, data("pt", 16), label, fam))
		}
		for _, entry := range []string{"DecryptPrivateKey", "Decrypt"} {
			if !known {
				out = append(out, dec(entry, name, "unknown-algorithm", rsaPriv.JWK, data("ct", 256), label, fam, 256))
				continue
			}
			for _, n := range []int{0, 1, 32} {
				ct, err := cryptoref.RSAEncrypt(ref, &rsaPub.RSA.PublicKey, data("pt", n), label)
				if err != nil {
					panic(err)
				}
				out = append(out, dec(entry, name, "ok", rsaPriv.JWK, ct, label, fam, n))
				bad := clone(ct)
				bad[100] ^= 1
				out = append(out, dec(entry, name, "corrupted-ciphertext", rsaPriv.JWK, bad, label, fam, n))
				out = append(out, dec(entry, name, "wrong-label", rsaPriv.JWK, ct, data("other-label", 5), fam, n))
				out = append(out, dec(entry, name, "public-key-given", rsaPub.JWK, ct, label, fam, n))
				out = append(out, dec(entry, name, "short-ciphertext", rsaPriv.JWK, ct[:100], label, fam, n))
			}
			// length dimension of the ciphertext, around the modulus size
			ct, err := cryptoref.RSAEncrypt(ref, &rsaPub.RSA.PublicKey, data("pt", 32), label)
			if err != nil {
				panic(err)
			}
			for _, n := range aroundSize(len(ct)) {
				var v []byte
				path := fmt.Sprintf("ciphertext-last-%d-of-%d", n, len(ct))
				if n <= len(ct) {
					v = clone(ct[len(ct)-n:])
				} else {
					v = append(make([]byte, n-len(ct)), ct...)
					path = fmt.Sprintf("ciphertext-zero-prefixed-to-%d-of-%d", n, len(ct))
				}
				sc := dec(entry, name, path, rsaPriv.JWK, v, label, fam, 32)
				sc.focus = "ciphertext"
				out = append(out, sc)
			}
			if zpt, zct := leadingZeroCiphertext(ref, &rsaPub.RSA.PublicKey, label); zct != nil {
				sc := dec(entry, name, "valid-ciphertext-leading-zero-stripped", rsaPriv.JWK, clone(zct[1:]), label, fam, len(zpt))
				sc.focus = "ciphertext"
				out = append(out, sc)
			}
		}
	}
	return out
}

func sigScenarios() (out []*scenario) {
	names := append(append([]string{}, kit.SupportedSignatureAlgorithms()...), kit.Algorithm_HS256, "NOPE-ALG")
	keyFor := func(ref cryptoref.Alg) (priv, pub *cryptokeys.Key) {
		var kd cryptokeys.Kind
		switch ref.KeyFamily() {
		case "RSA":
			kd = cryptokeys.RSAPriv
		case "P-256":
			kd = cryptokeys.P256Priv
		case "P-384":
			kd = cryptokeys.P384Priv
		case "P-521":
			kd = cryptokeys.P521Priv
		default:
			kd = cryptokeys.Ed25519Prv
		}
		priv = cryptokeys.Asym(kd, "A")
		return priv, cryptokeys.Partner(priv)
	}
	sign := func(alg, path string, key jwk.Key, d []byte, fam string) *scenario {
		return &scenario{
			id: fmt.Sprintf("crypto.SignPrivateKey|%s|%s|len=%d", alg, path, len(d)), site: "SignPrivateKey-" + fam, fn: "crypto.SignPrivateKey",
			args: []arg{in("digest", d)},
			call: func(a [][]byte) outcome {
				return guarded(func() outcome {
					sig, err := kit.SignPrivateKey(a[0], alg, key)
					return result(err, []string{"signature"}, sig)
				})
			},
		}
	}
	verify := func(alg, path string, key jwk.Key, d, sig []byte, fam string) *scenario {
		return &scenario{
			id: fmt.Sprintf("crypto.VerifyPublicKey|%s|%s|len=%d", alg, path, len(d)), site: "VerifyPublicKey-" + fam, fn: "crypto.VerifyPublicKey",
			args: []arg{in("digest", d), in("signature", sig)},
			call: func(a [][]byte) outcome {
				return guarded(func() outcome {
					ok, err := kit.VerifyPublicKey(a[0], a[1], alg, key)
					o := result(err, nil)
					o.err += fmt.Sprintf(" valid=%v", ok)
					return o
				})
			},
		}
	}
	other := cryptokeys.Asym(cryptokeys.Ed25519Prv, "B")
	otherRSA := cryptokeys.Asym(cryptokeys.RSAPriv, "B")
	for _, name := range names {
		ref, known := cryptoref.Lookup(name)
		known = known && ref.Signature()
		fam := family(ref, known)
		if !known {
			out = append(out, sign(name, "unknown-algorithm", otherRSA.JWK, data("digest", 32), fam))
			out = append(out, verify(name, "unknown-algorithm", otherRSA.JWK, data("digest", 32), data("sig", 64), fam))
			continue
		}
		priv, pub := keyFor(ref)
		dl := 32
		if ref.Class != cryptoref.SigEdDSA {
			dl = ref.Hash.Size()
		}
		lens := []int{dl}
		if ref.Class == cryptoref.SigEdDSA {
			lens = []int{0, 1, 32, 100}
		}
		wrong := other
		if ref.KeyFamily() == "Ed25519" {
			wrong = otherRSA
		}
		for _, n := range lens {
			d := data("digest", n)
			out = append(out, sign(name, "ok", priv.JWK, d, fam))
			out = append(out, sign(name, "wrong-key-kind", wrong.JWK, d, fam))
			out = append(out, sign(name, "public-key-given", pub.JWK, d, fam))
			sig, err := cryptoref.Sign(ref, sigPriv(priv), d)
			if err != nil {
				panic(err)
			}
			out = append(out, verify(name, "ok", pub.JWK, d, sig, fam))
			out = append(out, verify(name, "ok-private-key-given", priv.JWK, d, sig, fam))
			bad := clone(sig)
			bad[len(bad)-1] ^= 1
			out = append(out, verify(name, "bad-signature", pub.JWK, d, bad, fam))
			out = append(out, verify(name, "truncated-signature", pub.JWK, d, sig[:len(sig)/2], fam))
			out = append(out, verify(name, "wrong-key-kind", wrong.JWK, d, sig, fam))
		}
		if ref.Class != cryptoref.SigEdDSA {
			out = append(out, sign(name, "bad-digest-length", priv.JWK, data("digest", dl+1), fam))
		}
		// length dimension: every byte-slice argument at the lengths around the
		// boundaries a verifier / signer tests, not only the well-formed one
		focus := func(sc *scenario, role string) *scenario { sc.focus = role; return sc }
		d := data("digest", dl)
		sig, err := cryptoref.Sign(ref, sigPriv(priv), d)
		if err != nil {
			panic(err)
		}
		size := len(sig) // RSA: the modulus size; ECDSA: this DER encoding; Ed25519: 64
		for _, n := range aroundSize(size) {
			if n <= size {
				// cut at the end, and cut at the front (what dropping leading bytes of an integer looks like)
				out = append(out, focus(verify(name, fmt.Sprintf("signature-cut-to-%d-of-%d", n, size), pub.JWK, d, clone(sig[:n]), fam), "signature"))
				if n > 0 {
					out = append(out, focus(verify(name, fmt.Sprintf("signature-last-%d-of-%d", n, size), pub.JWK, d, clone(sig[size-n:]), fam), "signature"))
				}
			} else {
				out = append(out, focus(verify(name, fmt.Sprintf("signature-extended-to-%d-of-%d", n, size), pub.JWK, d, append(clone(sig), make([]byte, n-size)...), fam), "signature"))
				out = append(out, focus(verify(name, fmt.Sprintf("signature-zero-prefixed-to-%d-of-%d", n, size), pub.JWK, d, append(make([]byte, n-size), sig...), fam), "signature"))
			}
		}
		if ref.KeyFamily() == "RSA" {
			// a VALID signature whose value happens to start with a zero byte, with that byte dropped
			zd, zsig := leadingZeroSignature(ref, priv)
			if zsig != nil {
				out = append(out, focus(verify(name, "valid-signature-with-leading-zero", pub.JWK, zd, zsig, fam), "signature"))
				out = append(out, focus(verify(name, "valid-signature-leading-zero-stripped", pub.JWK, zd, clone(zsig[1:]), fam), "signature"))
			}
		}
		dlens := []int{0, 1, dl - 1, dl + 1, dl + 8, 2 * dl}
		if ref.Class == cryptoref.SigEdDSA {
			dlens = []int{31, 33, 64, 65}
		}
		for _, n := range dlens {
			dd := data("digest", n)
			out = append(out, focus(sign(name, "digest-length", priv.JWK, dd, fam), "digest"))
			out = append(out, focus(verify(name, fmt.Sprintf("digest-length|signature-of-%d", dl), pub.JWK, dd, sig, fam), "digest"))
		}
	}
	return out
}

// aroundSize: 0, 1, size-8 .. size-1, size+1, size+8 (size itself is the "ok" path).
func aroundSize(size int) []int {
	ns := []int{0, 1}
	for n := size - 8; n < size; n++ {
		if n > 1 {
			ns = append(ns, n)
		}
	}
	return append(ns, size+1, size+8)
}

var (
	zeroSigMu    sync.Mutex
	zeroSigCache = map[string][2][]byte{}
)

// leadingZeroSignature searches digests 0, 1, 2 ... (deterministic) for one
// whose reference signature starts with a zero byte (about one in 200 for these
// moduli). The result is cached; nil if none is found among 4000.
func leadingZeroSignature(ref cryptoref.Alg, priv *cryptokeys.Key) (digest, sig []byte) {
	zeroSigMu.Lock()
	defer zeroSigMu.Unlock()
	if c, ok := zeroSigCache[ref.Name]; ok {
		return c[0], c[1]
	}
	for i := 0; i < 4000; i++ {
		d := data(fmt.Sprintf("zero-search-%d", i), ref.Hash.Size())
		s, err := cryptoref.Sign(ref, sigPriv(priv), d)
		if err == nil && s[0] == 0 {
			zeroSigCache[ref.Name] = [2][]byte{d, s}
			return d, s
		}
	}
	zeroSigCache[ref.Name] = [2][]byte{nil, nil}
	return nil, nil
}

func sigPriv(k *cryptokeys.Key) any {
	switch k.Family {
	case "RSA":
		return k.RSA
	case "Ed25519":
		return k.Ed25519
	}
	return k.ECDSA
}

// ---------------------------------------------------------------------------
// crypto.ParseKey

func parseKeyScenarios() (out []*scenario) {
	mk := func(name string, raw []byte, ct string) *scenario {
		return &scenario{
			id: fmt.Sprintf("crypto.ParseKey|%s|contentType=%q|len=%d", name, ct, len(raw)), site: "ParseKey", fn: "crypto.ParseKey",
			args: []arg{in("raw", raw)},
			call: func(a [][]byte) outcome {
				return guarded(func() outcome {
					k, err := kit.ParseKey(a[0], ct)
					o := result(err, nil)
					if err == nil && k != nil {
						// the one []byte reachable from the result: a symmetric key's octets
						var oct []byte
						if k.Raw(&oct) == nil {
							o.results, o.names = [][]byte{oct}, []string{"key-octets"}
						}
					}
					return o
				})
			},
			// ParseKey's last resort "treat the byte slice as the raw, symmetric
			// key" hands the caller's slice to jwk.FromRaw, which keeps it; the
			// property is about writes, and sharing is reported separately below
			mayAlias: map[string]bool{"raw": true},
		}
	}
	ec := cryptokeys.Asym(cryptokeys.P256Priv, "A")
	der, _ := x509.MarshalPKCS8PrivateKey(ec.ECDSA)
	pemBytes := pem.EncodeToMemory(&pem.Block{Type: "PRIVATE KEY", Bytes: der})
	pubJWK, _ := json.Marshal(cryptokeys.Asym(cryptokeys.RSAPub, "A").JWK)
	octJWK, _ := json.Marshal(cryptokeys.OctKey(32).JWK)
	k32 := data("sym", 32)
	curly16 := append([]byte("{"), data("sym", 15)...)
	raws := []struct {
		name string
		raw  []byte
	}{
		{"jwk-rsa-public", pubJWK}, {"jwk-oct", octJWK}, {"pem-pkcs8-ec", pemBytes},
		{"base64-std-padded-newline", []byte(base64.StdEncoding.EncodeToString(k32) + "\n")},
		{"base64-url", []byte(base64.RawURLEncoding.EncodeToString(append([]byte{0xfb, 0xff}, k32...)))},
		{"raw-32-bytes", append([]byte{0x00, 0x01}, k32[:30]...)},
		{"raw-16-bytes-starting-with-brace", curly16},
		{"invalid-json", []byte("{not json at all, and not 16/24/32 bytes long}")},
		{"invalid-pem", []byte("-----BEGIN NOTHING-----\nAAAA\n-----END NOTHING-----\n")},
		{"empty", []byte{}},
	}
	for _, r := range raws {
		for _, ct := range []string{"", "application/json", "application/x-pem-file", "application/pkcs8", "application/octet-stream"} {
			out = append(out, mk(r.name, r.raw, ct))
		}
	}
	return out
}

func allScenarios() []*scenario {
	var out []*scenario
	out = append(out, paddingScenarios()...)
	out = append(out, kwScenarios()...)
	out = append(out, aeadScenarios()...)
	out = append(out, symScenarios()...)
	out = append(out, asymScenarios()...)
	out = append(out, sigScenarios()...)
	out = append(out, parseKeyScenarios()...)
	return out
}

// leadingZeroCiphertext searches plaintexts (deterministic; the reference's
// randomness is a constant stream) for an RSA ciphertext starting with a zero byte.
func leadingZeroCiphertext(ref cryptoref.Alg, pub *rsa.PublicKey, label []byte) (pt, ct []byte) {
	zeroSigMu.Lock()
	defer zeroSigMu.Unlock()
	if c, ok := zeroSigCache["ct:"+ref.Name]; ok {
		return c[0], c[1]
	}
	for i := 0; i < 8000; i++ {
		p := data(fmt.Sprintf("zero-ct-search-%d", i), 24)
		c, err := cryptoref.RSAEncrypt(ref, pub, p, label)
		if err == nil && c[0] == 0 {
			zeroSigCache["ct:"+ref.Name] = [2][]byte{p, c}
			return p, c
		}
	}
	zeroSigCache["ct:"+ref.Name] = [2][]byte{nil, nil}
	return nil, nil
}
