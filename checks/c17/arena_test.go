// Package c17 decides property C17 (crypto helpers never write to memory owned
// by the caller): every exported function of crypto, crypto/aeskw,
// crypto/padding and crypto/aescbcaead that takes []byte is called with every
// byte-slice argument carved out of one canary-filled arena, with spare
// capacity behind the argument's length, on its success path and on each of
// its failure paths; afterwards the whole arena must be bit-identical, except
// for the part of an explicit AEAD destination behind the bytes it already
// held, and no result may share memory with an argument unless returning a
// sub-slice is the function's contract (UnpadPKCS7; AEAD results and dst).
package c17

import (
	"bytes"
	"fmt"
	"strings"
	"unsafe"
)

// arg is one byte-slice argument of a call.
type arg struct {
	role  string // plaintext ciphertext key nonce tag aad label digest signature raw buf cek wrapped dst
	data  []byte // contents
	carve bool   // false: pass data as it is (used for nil arguments)
	dst   bool   // explicit AEAD destination
	keep  int    // dst: leading bytes the call must preserve (len(dst) as passed)
}

func in(role string, data []byte) arg { return arg{role: role, data: data, carve: true} }
func nilArg(role string) arg          { return arg{role: role} }

// outcome of a call.
type outcome struct {
	kind    string   // ok | error | panic
	err     string   // text of the error / panic
	results [][]byte // every []byte the call returned
	names   []string // what each result is
	pval    any      // the recovered panic value (a fault on read-only argument memory carries its address)
}

type scenario struct {
	id       string // unique, stable: fn|alg|path|len|variant
	site     string // finding-key prefix: innermost exported function (+ algorithm family)
	fn       string
	args     []arg
	call     func(a [][]byte) outcome
	mayAlias map[string]bool  // argument roles a result is allowed to share memory with
	inner    func() *scenario // the exported function one level down, fed the same arguments
	focus    string           // length-dimension scenarios: the argument whose length is being varied (reduced layout set)
}

const guard = 32

// canary is the position-dependent filler; every case is run twice, with the
// filler and with its complement, so that a written byte can never hide by
// being equal to the canary it replaces.
func canary(i int, flip bool) byte {
	b := byte(0xA5 ^ (i * 29) ^ (i >> 8))
	if flip {
		return ^b
	}
	return b
}

type span struct{ off, n, cap int }

// layout says how the arguments sit in the arena: the spare capacity behind
// each, and optionally one ordered pair (a, b) that is CONTIGUOUS - b starts
// where a's length ends, so cap(a) extends over b (and b's spare): the shape
// of "ciphertext || tag" cut out of one message buffer.
type layout struct {
	spare []int
	adj   []int // nil, or {a, b}: argument b directly behind argument a
}

// carveArena lays the arguments out in one arena:
//
//	guard | arg0 | spare0 | guard | arg1 | spare1 | guard ...
//
// or, for an adjacent pair, guard | a | b | spare_b | guard. Every byte that
// is not argument content holds a position-dependent canary. Each argument
// slice has len = its length and cap = len + its spare (a: len + everything up
// to the end of b's spare).
func carveArena(args []arg, l layout, flip bool) (arena []byte, slices [][]byte, spans []span) {
	a, b := -1, -1
	if l.adj != nil {
		a, b = l.adj[0], l.adj[1]
	}
	var order []int
	for i := range args {
		if i == b {
			continue
		}
		order = append(order, i)
		if i == a {
			order = append(order, b)
		}
	}
	total := guard
	for i, x := range args {
		if x.carve {
			total += len(x.data) + l.spare[i] + guard
		}
	}
	arena = make([]byte, total)
	for i := range arena {
		arena[i] = canary(i, flip)
	}
	slices = make([][]byte, len(args))
	spans = make([]span, len(args))
	off := guard
	for _, i := range order {
		x := args[i]
		if !x.carve {
			slices[i] = x.data
			spans[i] = span{-1, 0, 0}
			continue
		}
		copy(arena[off:], x.data)
		c := len(x.data) + l.spare[i]
		if i == a {
			c = len(x.data) + len(args[b].data) + l.spare[b]
		}
		slices[i] = arena[off : off+len(x.data) : off+c]
		spans[i] = span{off, len(x.data), c}
		if i == a {
			off += len(x.data) // b follows immediately
		} else {
			off += c + guard
		}
	}
	return arena, slices, spans
}

// cond is one thing the oracle objects to.
type cond struct {
	role   string // argument concerned ("" for guard bytes)
	region string // in-length | spare | guard | alias
	off    int    // first modified offset, relative to the argument
	wrote  []byte // the modified bytes (from first to last modified offset)
	after  []byte // spare: the whole spare capacity after the call
	result string // alias: which result
}

func (c cond) ident() string { return c.role + "/" + c.region + "/" + c.result }

func (c cond) describe() string {
	switch c.region {
	case "alias":
		return fmt.Sprintf("result %q shares memory with argument %q", c.result, c.role)
	case "guard":
		return fmt.Sprintf("bytes outside every argument were modified (arena offset %d): %x", c.off, c.wrote)
	case "spare":
		return fmt.Sprintf("the spare capacity behind argument %q was written at offset len+%d: %x", c.role, c.off, c.wrote)
	}
	return fmt.Sprintf("argument %q was modified at offset %d: now %x", c.role, c.off, c.wrote)
}

// judge compares the arena with its snapshot and checks the results for aliasing.
// Every arena byte has one owner: the argument whose length covers it
// ("in-length"; for a destination only the bytes it must keep), else the
// argument whose spare capacity covers it ("spare"; writable for a
// destination), else nobody ("guard"). With an adjacent pair the bytes of b are
// b's, although cap(a) reaches over them.
func judge(sc *scenario, arena, before []byte, spans []span, out outcome) []cond {
	const (
		oGuard = iota
		oIn
		oSpare
		oFree // destination bytes the call may write
	)
	type own struct {
		arg  int
		kind int
	}
	owner := make([]own, len(arena))
	for i := range owner {
		owner[i] = own{-1, oGuard}
	}
	for i, sp := range spans {
		if sp.off < 0 {
			continue
		}
		k := oSpare
		if sc.args[i].dst {
			k = oFree
		}
		for x := sp.off + sp.n; x < sp.off+sp.cap; x++ {
			if owner[x].kind == oGuard {
				owner[x] = own{i, k}
			}
		}
	}
	for i, sp := range spans {
		if sp.off < 0 {
			continue
		}
		keep := sp.n
		if sc.args[i].dst {
			keep = sc.args[i].keep
		}
		for x := sp.off; x < sp.off+sp.n; x++ {
			if x < sp.off+keep {
				owner[x] = own{i, oIn}
			} else {
				owner[x] = own{i, oFree}
			}
		}
	}
	type acc struct{ first, last int }
	hits := map[own]*acc{}
	var order []own
	for x := range arena {
		if arena[x] == before[x] || owner[x].kind == oFree {
			continue
		}
		o := owner[x]
		if hits[o] == nil {
			hits[o] = &acc{x, x}
			order = append(order, o)
		}
		hits[o].last = x
	}
	var conds []cond
	for _, o := range order {
		h := hits[o]
		w := clone(arena[h.first : h.last+1])
		switch o.kind {
		case oGuard:
			conds = append(conds, cond{region: "guard", off: h.first, wrote: w})
		case oIn:
			conds = append(conds, cond{role: sc.args[o.arg].role, region: "in-length", off: h.first - spans[o.arg].off, wrote: w})
		case oSpare:
			sp := spans[o.arg]
			conds = append(conds, cond{role: sc.args[o.arg].role, region: "spare", off: h.first - sp.off - sp.n, wrote: w, after: clone(arena[sp.off+sp.n : sp.off+sp.cap])})
		}
	}
	// aliasing: a result's backing array (its whole capacity) against each argument's span
	base := uintptr(unsafe.Pointer(unsafe.SliceData(arena)))
	for ri, r := range out.results {
		if cap(r) == 0 {
			continue
		}
		lo := uintptr(unsafe.Pointer(unsafe.SliceData(r)))
		hi := lo + uintptr(cap(r))
		if hi <= base || lo >= base+uintptr(len(arena)) {
			continue
		}
		// the argument the result STARTS in names the condition (a result that
		// is a window of argument a and whose capacity runs on over a
		// neighbouring argument b is one sharing, not two); a result that
		// starts outside every argument is charged to each one it overlaps
		hit := false
		var overlaps []int
		start := -1
		for i, sp := range spans {
			if sp.off < 0 || sp.cap == 0 {
				continue
			}
			alo, ahi := base+uintptr(sp.off), base+uintptr(sp.off+sp.cap)
			if lo < ahi && alo < hi {
				hit = true
				overlaps = append(overlaps, i)
				if lo >= alo && lo < ahi && (start < 0 || sp.off > spans[start].off) {
					start = i // the innermost owner: with an adjacent pair the later-starting span
				}
			}
		}
		if start >= 0 {
			overlaps = []int{start}
		}
		for _, i := range overlaps {
			if !sc.mayAlias[sc.args[i].role] {
				conds = append(conds, cond{role: sc.args[i].role, region: "alias", result: out.names[ri]})
			}
		}
		if !hit {
			conds = append(conds, cond{role: "", region: "alias", result: out.names[ri]})
		}
	}
	return conds
}

func (sc *scenario) argData(role string) []byte {
	for _, a := range sc.args {
		if a.role == role {
			return a.data
		}
	}
	return nil
}

// condName is the condition part of a finding key.
func (sc *scenario) condName(c cond) string {
	switch c.region {
	case "guard":
		return "writes-outside-arguments"
	case "alias":
		if c.role == "" {
			return "result-" + c.result + "-points-into-arena-guard"
		}
		return "result-" + c.result + "-aliases-" + c.role
	case "in-length":
		if c.role == "dst" {
			return "overwrites-dst-prefix"
		}
		return "overwrites-" + c.role
	}
	// spare capacity: the region behind len now starts with ...
	if tag := sc.argData("tag"); c.role == "ciphertext" && len(tag) > 0 {
		n := len(tag)
		if len(c.after) < n {
			n = len(c.after)
		}
		if n > 0 && bytes.Equal(c.after[:n], tag[:n]) {
			return "appends-tag-to-ciphertext-capacity"
		}
	}
	if sc.site == "PadPKCS7" {
		return "appends-into-caller-capacity"
	}
	return "appends-into-" + c.role + "-capacity"
}

// run executes the scenario under one spare-capacity layout, once per canary
// pattern, and merges what the two runs show. An aliasing condition on an
// argument the call also wrote to is the same defect seen twice (an in-place
// append both writes the caller's memory and returns it) and is dropped.
func (sc *scenario) run(l layout) ([]cond, outcome) { return sc.runS(l, nil) }

// runS is run inside a session: the session remembers the buffers earlier calls
// returned (they belong to the caller: no later call may write to them) and
// keeps every input arena for the re-verification after garbage collection.
func (sc *scenario) runS(l layout, ss *session) ([]cond, outcome) {
	var merged []cond
	var out outcome
	for _, flip := range []bool{false, true} {
		arena, slices, spans := carveArena(sc.args, l, flip)
		before := clone(arena)
		out = sc.call(slices)
		if ss != nil {
			ss.afterCall(sc, l, arena, spans, out)
		}
		for _, c := range judge(sc, arena, before, spans, out) {
			dup := false
			for i, m := range merged {
				if m.ident() == c.ident() {
					dup = true
					if c.off < m.off || len(c.wrote) > len(m.wrote) {
						merged[i] = c
					}
				}
			}
			if !dup {
				merged = append(merged, c)
			}
		}
	}
	var conds []cond
	for _, c := range merged {
		if c.region == "alias" {
			wrote := false
			for _, m := range merged {
				wrote = wrote || (m.role == c.role && (m.region == "spare" || m.region == "in-length"))
			}
			if wrote {
				continue
			}
		}
		conds = append(conds, c)
	}
	return conds, out
}

// layoutFor maps a layout of an outer scenario onto an inner one by role (an
// adjacent pair is kept when the inner function takes both arguments).
func layoutFor(inner, outer *scenario, l layout) layout {
	byRole := map[string]int{}
	for i, a := range outer.args {
		byRole[a.role] = l.spare[i]
	}
	idx := map[string]int{}
	out := layout{spare: make([]int, len(inner.args))}
	for i, a := range inner.args {
		out.spare[i] = byRole[a.role]
		if a.carve {
			idx[a.role] = i
		}
	}
	if l.adj != nil {
		a, aok := idx[outer.args[l.adj[0]].role]
		b, bok := idx[outer.args[l.adj[1]].role]
		if aok && bok && !inner.args[a].dst && !inner.args[b].dst {
			out.adj = []int{a, b}
		}
	}
	return out
}

type finding struct{ key, msg string }

// evaluate runs the scenario and attributes each condition to the innermost
// exported function that shows the same condition on the same arguments.
func (sc *scenario) evaluate(spare layout) ([]finding, outcome) { return sc.evaluateS(spare, nil) }

func (sc *scenario) evaluateS(spare layout, ss *session) ([]finding, outcome) {
	conds, out := sc.runS(spare, ss)
	return sc.attribute(spare, conds, out, "", func(in *scenario, il layout) []cond { c, _ := in.run(il); return c }), out
}

// attribute names each condition after the innermost exported function that
// shows it when fed the same arguments (rerun re-evaluates an inner scenario).
func (sc *scenario) attribute(spare layout, conds []cond, out outcome, when string, rerun func(in *scenario, il layout) []cond) []finding {
	var fs []finding
	for _, c := range conds {
		site, name := sc.site, sc.condName(c)
		via := ""
		for cur, lay := sc, spare; cur.inner != nil; {
			in := cur.inner()
			if in == nil {
				break
			}
			il := layoutFor(in, cur, lay)
			ic := rerun(in, il)
			found := false
			for _, x := range ic {
				if x.ident() == c.ident() {
					site, name = in.site, in.condName(x)
					via = " (seen through " + sc.fn + ")"
					found = true
					break
				}
			}
			if !found {
				break
			}
			cur, lay = in, il
		}
		fs = append(fs, finding{site + "/" + name, fmt.Sprintf("%s %s%s: %s%s; call outcome: %s %s", sc.id, layoutString(sc, spare), via, c.describe(), when, out.kind, out.err)})
	}
	return fs
}

func layoutString(sc *scenario, l layout) string {
	var s []string
	for i, a := range sc.args {
		switch {
		case !a.carve:
			s = append(s, a.role+":nil")
		case l.adj != nil && i == l.adj[0]:
			s = append(s, fmt.Sprintf("%s:len=%d,directly-followed-by-%s", a.role, len(a.data), sc.args[l.adj[1]].role))
		default:
			s = append(s, fmt.Sprintf("%s:len=%d+spare=%d", a.role, len(a.data), l.spare[i]))
		}
	}
	return "[" + strings.Join(s, " ") + "]"
}

// spares is the spare-capacity set of the property's quantifier.
var spares = []int{0, 1, 8, 15, 16, 17, 64}

// layouts: every argument gets the same spare (all at once); each carved
// argument alone gets each non-zero spare (one at a time; an AEAD destination
// additionally 160 so that results of every length fit in place); and, for
// functions taking several byte slices, every ordered pair (a, b) of input
// arguments laid out contiguously - b directly behind a - with 0 and with 16
// bytes of spare capacity behind b.
func layouts(sc *scenario) []layout {
	var out []layout
	n := len(sc.args)
	if sc.focus != "" {
		// a length-dimension scenario: the argument whose length varies gets
		// every spare capacity, with the others at the same spare and at none
		for _, s := range spares {
			l := make([]int, n)
			for i := range l {
				l[i] = s
			}
			out = append(out, layout{spare: l})
		}
		for i, a := range sc.args {
			if a.role != sc.focus {
				continue
			}
			for _, s := range spares[1:] {
				l := make([]int, n)
				l[i] = s
				out = append(out, layout{spare: l})
			}
		}
		return out
	}
	for _, s := range spares {
		l := make([]int, n)
		for i := range l {
			l[i] = s
		}
		out = append(out, layout{spare: l})
	}
	for i, a := range sc.args {
		if !a.carve {
			continue
		}
		ss := spares[1:]
		if a.dst {
			ss = append(append([]int{}, ss...), 160)
		}
		for _, s := range ss {
			l := make([]int, n)
			l[i] = s
			out = append(out, layout{spare: l})
		}
	}
	for a, x := range sc.args {
		for b, y := range sc.args {
			// (a destination is excluded: cipher.AEAD requires that dst's spare
			// capacity does not overlap the other arguments)
			if a == b || !x.carve || !y.carve || x.dst || y.dst {
				continue
			}
			for _, tail := range []int{0, 16} {
				l := make([]int, n)
				l[b] = tail
				out = append(out, layout{spare: l, adj: []int{a, b}})
			}
		}
	}
	return out
}

func clone(b []byte) []byte {
	if b == nil {
		return nil
	}
	return append([]byte{}, b...)
}
