// Package c17 decides property C17 (crypto helpers never write to memory owned
// by the caller): every exported function of crypto, crypto/aeskw,
// crypto/padding and crypto/aescbcaead that takes []byte is called with every
// byte-slice argument carved out of one canary-filled arena, with spare
// capacity behind the argument's length, on its success path and on each of
// its failure paths; afterwards the whole arena must be bit-identical, except
// for the part of an explicit AEAD destination behind the bytes it already
// held, and no result may share memory with an argument unless returning a
// sub-slice is the function's contract (UnpadPKCS7; AEAD results and dst).
package c17

import (
	"bytes"
	"fmt"
	"strings"
	"unsafe"
)

// arg is one byte-slice argument of a call.
type arg struct {
	role  string // plaintext ciphertext key nonce tag aad label digest signature raw buf cek wrapped dst
	data  []byte // contents
	carve bool   // false: pass data as it is (used for nil arguments)
	dst   bool   // explicit AEAD destination
	keep  int    // dst: leading bytes the call must preserve (len(dst) as passed)
}

func in(role string, data []byte) arg { return arg{role: role, data: data, carve: true} }
func nilArg(role string) arg          { return arg{role: role} }

// outcome of a call.
type outcome struct {
	kind    string   // ok | error | panic
	err     string   // text of the error / panic
	results [][]byte // every []byte the call returned
	names   []string // what each result is
}

type scenario struct {
	id       string // unique, stable: fn|alg|path|len|variant
	site     string // finding-key prefix: innermost exported function (+ algorithm family)
	fn       string
	args     []arg
	call     func(a [][]byte) outcome
	mayAlias map[string]bool  // argument roles a result is allowed to share memory with
	inner    func() *scenario // the exported function one level down, fed the same arguments
}

const guard = 32

// canary is the position-dependent filler; every case is run twice, with the
// filler and with its complement, so that a written byte can never hide by
// being equal to the canary it replaces.
func canary(i int, flip bool) byte {
	b := byte(0xA5 ^ (i * 29) ^ (i >> 8))
	if flip {
		return ^b
	}
	return b
}

type span struct{ off, n, cap int }

// carveArena lays the arguments out in one arena:
//
//	guard | arg0 | spare0 | guard | arg1 | spare1 | guard ...
//
// every byte that is not argument content holds a position-dependent canary.
// Each argument slice has len = its length and cap = len + its spare.
func carveArena(args []arg, spare []int, flip bool) (arena []byte, slices [][]byte, spans []span) {
	total := guard
	for i, a := range args {
		if a.carve {
			total += len(a.data) + spare[i] + guard
		}
	}
	arena = make([]byte, total)
	for i := range arena {
		arena[i] = canary(i, flip)
	}
	slices = make([][]byte, len(args))
	spans = make([]span, len(args))
	off := guard
	for i, a := range args {
		if !a.carve {
			slices[i] = a.data
			spans[i] = span{-1, 0, 0}
			continue
		}
		copy(arena[off:], a.data)
		slices[i] = arena[off : off+len(a.data) : off+len(a.data)+spare[i]]
		spans[i] = span{off, len(a.data), len(a.data) + spare[i]}
		off += len(a.data) + spare[i] + guard
	}
	return arena, slices, spans
}

// cond is one thing the oracle objects to.
type cond struct {
	role   string // argument concerned ("" for guard bytes)
	region string // in-length | spare | guard | alias
	off    int    // first modified offset, relative to the argument
	wrote  []byte // the modified bytes (from first to last modified offset)
	after  []byte // spare: the whole spare capacity after the call
	result string // alias: which result
}

func (c cond) ident() string { return c.role + "/" + c.region + "/" + c.result }

func (c cond) describe() string {
	switch c.region {
	case "alias":
		return fmt.Sprintf("result %q shares memory with argument %q", c.result, c.role)
	case "guard":
		return fmt.Sprintf("bytes outside every argument were modified (arena offset %d): %x", c.off, c.wrote)
	case "spare":
		return fmt.Sprintf("the spare capacity behind argument %q was written at offset len+%d: %x", c.role, c.off, c.wrote)
	}
	return fmt.Sprintf("argument %q was modified at offset %d: now %x", c.role, c.off, c.wrote)
}

// judge compares the arena with its snapshot and checks the results for aliasing.
func judge(sc *scenario, arena, before []byte, spans []span, out outcome) []cond {
	var conds []cond
	changed := func(lo, hi int) (first, last int, any bool) {
		first, last = -1, -1
		for i := lo; i < hi; i++ {
			if arena[i] != before[i] {
				if first < 0 {
					first = i
				}
				last = i
			}
		}
		return first, last, first >= 0
	}
	prev := 0
	for i, sp := range spans {
		if sp.off < 0 {
			continue
		}
		a := sc.args[i]
		if f, l, ok := changed(prev, sp.off); ok {
			conds = append(conds, cond{region: "guard", off: f, wrote: clone(arena[f : l+1])})
		}
		keep := sp.n
		if a.dst {
			keep = a.keep
		}
		if f, l, ok := changed(sp.off, sp.off+keep); ok {
			conds = append(conds, cond{role: a.role, region: "in-length", off: f - sp.off, wrote: clone(arena[f : l+1])})
		}
		if !a.dst {
			if f, l, ok := changed(sp.off+sp.n, sp.off+sp.cap); ok {
				conds = append(conds, cond{role: a.role, region: "spare", off: f - sp.off - sp.n, wrote: clone(arena[f : l+1]), after: clone(arena[sp.off+sp.n : sp.off+sp.cap])})
			}
		}
		prev = sp.off + sp.cap
	}
	if f, l, ok := changed(prev, len(arena)); ok {
		conds = append(conds, cond{region: "guard", off: f, wrote: clone(arena[f : l+1])})
	}
	// aliasing: a result's backing array (its whole capacity) against each argument's span
	base := uintptr(unsafe.Pointer(unsafe.SliceData(arena)))
	for ri, r := range out.results {
		if cap(r) == 0 {
			continue
		}
		lo := uintptr(unsafe.Pointer(unsafe.SliceData(r)))
		hi := lo + uintptr(cap(r))
		if hi <= base || lo >= base+uintptr(len(arena)) {
			continue
		}
		hit := false
		for i, sp := range spans {
			if sp.off < 0 {
				continue
			}
			alo, ahi := base+uintptr(sp.off), base+uintptr(sp.off+sp.cap)
			if sp.cap == 0 {
				continue
			}
			if lo < ahi && alo < hi {
				hit = true
				if !sc.mayAlias[sc.args[i].role] {
					conds = append(conds, cond{role: sc.args[i].role, region: "alias", result: out.names[ri]})
				}
			}
		}
		if !hit {
			conds = append(conds, cond{role: "", region: "alias", result: out.names[ri]})
		}
	}
	return conds
}

func (sc *scenario) argData(role string) []byte {
	for _, a := range sc.args {
		if a.role == role {
			return a.data
		}
	}
	return nil
}

// condName is the condition part of a finding key.
func (sc *scenario) condName(c cond) string {
	switch c.region {
	case "guard":
		return "writes-outside-arguments"
	case "alias":
		if c.role == "" {
			return "result-" + c.result + "-points-into-arena-guard"
		}
		return "result-" + c.result + "-aliases-" + c.role
	case "in-length":
		if c.role == "dst" {
			return "overwrites-dst-prefix"
		}
		return "overwrites-" + c.role
	}
	// spare capacity: the region behind len now starts with ...
	if tag := sc.argData("tag"); c.role == "ciphertext" && len(tag) > 0 {
		n := len(tag)
		if len(c.after) < n {
			n = len(c.after)
		}
		if n > 0 && bytes.Equal(c.after[:n], tag[:n]) {
			return "appends-tag-to-ciphertext-capacity"
		}
	}
	if sc.site == "PadPKCS7" {
		return "appends-into-caller-capacity"
	}
	return "appends-into-" + c.role + "-capacity"
}

// run executes the scenario under one spare-capacity layout, once per canary
// pattern, and merges what the two runs show. An aliasing condition on an
// argument the call also wrote to is the same defect seen twice (an in-place
// append both writes the caller's memory and returns it) and is dropped.
func (sc *scenario) run(spare []int) ([]cond, outcome) {
	var merged []cond
	var out outcome
	for _, flip := range []bool{false, true} {
		arena, slices, spans := carveArena(sc.args, spare, flip)
		before := clone(arena)
		out = sc.call(slices)
		for _, c := range judge(sc, arena, before, spans, out) {
			dup := false
			for i, m := range merged {
				if m.ident() == c.ident() {
					dup = true
					if c.off < m.off || len(c.wrote) > len(m.wrote) {
						merged[i] = c
					}
				}
			}
			if !dup {
				merged = append(merged, c)
			}
		}
	}
	var conds []cond
	for _, c := range merged {
		if c.region == "alias" {
			wrote := false
			for _, m := range merged {
				wrote = wrote || (m.role == c.role && (m.region == "spare" || m.region == "in-length"))
			}
			if wrote {
				continue
			}
		}
		conds = append(conds, c)
	}
	return conds, out
}

// layoutFor maps a layout of an outer scenario onto an inner one by role.
func layoutFor(inner, outer *scenario, spare []int) []int {
	byRole := map[string]int{}
	for i, a := range outer.args {
		byRole[a.role] = spare[i]
	}
	out := make([]int, len(inner.args))
	for i, a := range inner.args {
		out[i] = byRole[a.role]
	}
	return out
}

type finding struct{ key, msg string }

// evaluate runs the scenario and attributes each condition to the innermost
// exported function that shows the same condition on the same arguments.
func (sc *scenario) evaluate(spare []int) ([]finding, outcome) {
	conds, out := sc.run(spare)
	var fs []finding
	for _, c := range conds {
		site, name := sc.site, sc.condName(c)
		via := ""
		for cur, lay := sc, spare; cur.inner != nil; {
			in := cur.inner()
			if in == nil {
				break
			}
			il := layoutFor(in, cur, lay)
			ic, _ := in.run(il)
			found := false
			for _, x := range ic {
				if x.ident() == c.ident() {
					site, name = in.site, in.condName(x)
					via = " (seen through " + sc.fn + ")"
					found = true
					break
				}
			}
			if !found {
				break
			}
			cur, lay = in, il
		}
		fs = append(fs, finding{site + "/" + name, fmt.Sprintf("%s %s%s: %s; call outcome: %s %s", sc.id, layoutString(sc, spare), via, c.describe(), out.kind, out.err)})
	}
	return fs, out
}

func layoutString(sc *scenario, spare []int) string {
	var s []string
	for i, a := range sc.args {
		if a.carve {
			s = append(s, fmt.Sprintf("%s:len=%d+spare=%d", a.role, len(a.data), spare[i]))
		} else {
			s = append(s, a.role+":nil")
		}
	}
	return "[" + strings.Join(s, " ") + "]"
}

// spares is the spare-capacity set of the property's quantifier.
var spares = []int{0, 1, 15, 16, 17, 64}

// layouts: every argument gets the same spare (all at once), then each carved
// argument alone gets each non-zero spare (one at a time); an AEAD destination
// additionally gets 160 so that results of every length fit in place.
func layouts(sc *scenario) [][]int {
	var out [][]int
	n := len(sc.args)
	for _, s := range spares {
		l := make([]int, n)
		for i := range l {
			l[i] = s
		}
		out = append(out, l)
	}
	for i, a := range sc.args {
		if !a.carve {
			continue
		}
		ss := spares[1:]
		if a.dst {
			ss = append(append([]int{}, ss...), 160)
		}
		for _, s := range ss {
			l := make([]int, n)
			l[i] = s
			out = append(out, l)
		}
	}
	return out
}

func clone(b []byte) []byte {
	if b == nil {
		return nil
	}
	return append([]byte{}, b...)
}
