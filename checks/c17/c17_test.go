package c17

import (
	"encoding/json"
	"fmt"
	"os"
	"sort"
	"strings"
	"sync"
	"testing"

	"verif/enumx"
	"verif/ref/cryptoref"
)

func TestCheck(t *testing.T) { enumx.Main(t, "C17", "readonly", run) }

// Case is the replay value: a scenario and a spare-capacity layout.
type Case struct {
	Scenario string `json:"scenario"`
	Spare    []int  `json:"spare"`
	Adjacent []int  `json:"adjacent,omitempty"` // {a, b}: argument b directly behind argument a
	Layout   string `json:"layout"`
}

func run(r *enumx.Run, replay *enumx.ReplayCase) {
	cryptoref.Rand = cryptoref.ConstReader(0x5A)
	setLens(r.Thorough())
	scs := allScenarios()
	if replay != nil {
		var c Case
		if err := json.Unmarshal(replay.Case, &c); err != nil {
			r.Violation("machinery/bad-replay", err.Error(), nil)
			return
		}
		for pass := 0; pass < 2; pass++ {
			for _, sc := range scs {
				if sc.id != c.Scenario {
					continue
				}
				fs, _ := sc.evaluate(layout{spare: c.Spare, adj: c.Adjacent})
				for _, f := range fs {
					if f.key == replay.Key {
						r.Violation(f.key, f.msg, c)
					}
				}
				return
			}
			// a scenario of the thorough tier's length set
			setLens(true)
			scs = allScenarios()
		}
		r.Violation("machinery/unknown-scenario", c.Scenario, nil)
		return
	}
	r.Rule("complete product, no sampling: every exported function of crypto, crypto/aeskw, crypto/padding, crypto/aescbcaead that takes []byte x every algorithm it supports (+ an unsupported constant and a junk name) x its success path and each failure path (wrong key size, wrong nonce size, wrong tag size, failed authentication of tag / ciphertext, invalid padding, invalid plaintext / ciphertext length, unknown algorithm, wrong key kind, message too long, wrong label, bad signature ...) x lengths 0,1,15,16,17,31,32,33 (thorough: every length 0..34 and 47,48,49,63,64,65; key wrap 16,24,32,40) x spare-capacity layouts: every argument at once with spare 0,1,15,16,17,64 and each argument alone with spare 1,15,16,17,64 (AEAD dst also 160), and every ordered pair of input arguments contiguous in memory (b directly behind a, so that cap(a) extends over b; 0 and 16 bytes of spare behind b) x dst in {nil, empty, 4-byte prefix, input[:0]}. Every byte-slice argument, including the octets behind the jwk.Key, lies in one canary-filled arena; a case is a (scenario, layout) pair, distinct by construction, and non-trivial when some argument has spare capacity or is a destination.")
	r.Assume("Go slices give no way to write outside [0, cap): canaries cover len..cap of every argument, 32 guard bytes between arguments, and the arguments themselves")
	r.Assume("aliasing is judged on the []byte values a call returns (whole capacity) against each argument's [0, cap); a returned jwk.Key or cipher.AEAD that keeps a reference to key material is outside the property (it is about writes)")
	r.Assume("aeskw.Unwrap inputs below 16 bytes are not fed (it panics before touching anything: C07)")

	ids := map[string]bool{}
	for _, sc := range scs {
		if ids[sc.id] {
			r.Violation("machinery/duplicate-scenario-id", sc.id, nil)
		}
		ids[sc.id] = true
	}
	var mu sync.Mutex
	outcomes := map[string]int{}
	perFn := map[string]int{}
	panics := map[string]int{}
	type pending struct {
		f finding
		c Case
	}
	found := make([][]pending, len(scs)) // reported afterwards in scenario order: deterministic output
	n := r.Parallel(len(scs), func(i int) {
		sc := scs[i]
		var cnt, nt int64
		loc := map[string]int{}
		for _, lay := range layouts(sc) {
			fs, out := sc.evaluate(lay)
			cnt++
			nz := lay.adj != nil
			for j, a := range sc.args {
				nz = nz || (a.carve && (lay.spare[j] > 0 || a.dst))
			}
			if nz {
				nt++
			}
			loc[out.kind]++
			if out.kind == "panic" {
				mu.Lock()
				panics[sc.id[:strings.Index(sc.id+"|", "|")]+": "+out.err]++
				mu.Unlock()
			}
			for _, f := range fs {
				found[i] = append(found[i], pending{f, Case{Scenario: sc.id, Spare: lay.spare, Adjacent: lay.adj, Layout: layoutString(sc, lay)}})
			}
		}
		r.Count(cnt, nt)
		mu.Lock()
		for k, v := range loc {
			outcomes[k] += v
			outcomes[sc.fn[:strings.LastIndexAny(sc.fn+".", ".")]+":"+k] += 0
		}
		perFn[sc.fn] += int(cnt)
		mu.Unlock()
	})
	for _, ps := range found {
		for _, p := range ps {
			r.Violation(p.f.key, p.f.msg, p.c)
		}
	}
	if n == len(scs) {
		r.Space(fmt.Sprintf("%d scenarios (function x algorithm x path x length x dst variant) x all spare-capacity layouts", len(scs)))
	} else {
		r.Incomplete(fmt.Sprintf("%d of %d scenarios evaluated when the budget expired", n, len(scs)))
	}
	r.Set("scenarios", len(scs))
	r.Set("calls_per_function", perFn)
	oc := map[string]int{}
	for k, v := range outcomes {
		if v > 0 {
			oc[k] = v
		}
	}
	r.Set("call_outcomes", oc)
	r.Set("panics_by_function_and_message", panics)
	if os.Getenv("C17_VERBOSE") != "" {
		var ks []string
		for k := range perFn {
			ks = append(ks, k)
		}
		sort.Strings(ks)
		for _, k := range ks {
			fmt.Printf("  %-45s %d calls\n", k, perFn[k])
		}
		fmt.Println("  outcomes:", oc)
		fmt.Println("  panics:", panics)
	}
	for _, i := range []int{0, len(scs) / 3, 2 * len(scs) / 3, len(scs) - 1} {
		lay := layouts(scs[i])
		r.Sample(Case{Scenario: scs[i].id, Spare: lay[len(lay)-1].spare, Adjacent: lay[len(lay)-1].adj, Layout: layoutString(scs[i], lay[len(lay)-1])})
	}
}
