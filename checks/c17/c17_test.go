package c17

import (
	"encoding/json"
	"fmt"
	"os"
	"runtime"
	"runtime/debug"
	"sort"
	"strings"
	"sync"
	"testing"

	"verif/enumx"
	"verif/ref/cryptoref"
)

func TestCheck(t *testing.T) { enumx.Main(t, "C17", "readonly", run) }

// Case is the replay value: a scenario and a spare-capacity layout.
type Case struct {
	Scenario  string `json:"scenario"`
	Spare     []int  `json:"spare"`
	Adjacent  []int  `json:"adjacent,omitempty"` // {a, b}: argument b directly behind argument a
	Layout    string `json:"layout"`
	Protected bool   `json:"protected,omitempty"` // the input arguments were in read-only pages (Spare[0] = spare capacity of each)
	AlignEnd  bool   `json:"align_end,omitempty"`
	AfterGC   bool   `json:"after_gc,omitempty"` // the write was seen when the arena was re-verified after garbage collection
	Earlier   *Case  `json:"earlier,omitempty"`  // sequence: this call ran first; the scenario above wrote to what it returned
	Hand      *Hand  `json:"hand,omitempty"`     // hand-over pair: result Res of scenario A is argument Arg of the scenario above
}

// Hand identifies a hand-over pair.
type Hand struct {
	A   string `json:"a"`
	Res int    `json:"res"`
	Arg int    `json:"arg"`
}

func run(r *enumx.Run, replay *enumx.ReplayCase) {
	cryptoref.Rand = cryptoref.ConstReader(0x5A)
	setLens(r.Thorough())
	scs := allScenarios()
	if replay != nil {
		var c Case
		if err := json.Unmarshal(replay.Case, &c); err != nil {
			r.Violation("machinery/bad-replay", err.Error(), nil)
			return
		}
		for pass := 0; pass < 2; pass++ {
			byID := map[string]*scenario{}
			for _, sc := range scs {
				byID[sc.id] = sc
			}
			if sc := byID[c.Scenario]; sc != nil {
				lay := layout{spare: c.Spare, adj: c.Adjacent}
				var fs []finding
				switch {
				case c.Protected:
					old := debug.SetPanicOnFault(true)
					if reg := getRegion(); reg != nil && len(c.Spare) == 1 {
						all, cases, _ := sc.evaluateProtected(reg)
						for i, f := range all {
							if cases[i].Spare[0] == c.Spare[0] && cases[i].AlignEnd == c.AlignEnd {
								fs = append(fs, f)
							}
						}
						putRegion(reg)
					}
					debug.SetPanicOnFault(old)
					releaseRegions()
				case c.Hand != nil:
					if a := byID[c.Hand.A]; a != nil {
						fs, _ = handOver(a, sc, c.Hand.Res, c.Hand.Arg)
					}
				case c.Earlier != nil:
					if e := byID[c.Earlier.Scenario]; e != nil {
						ss := &session{}
						e.runS(layout{spare: c.Earlier.Spare, adj: c.Earlier.Adjacent}, ss)
						sc.runS(lay, ss)
						for _, w := range ss.later {
							fs = append(fs, laterFinding(w).f)
						}
						if len(fs) == 0 {
							// the write may have come from another worker's call in
							// the parallel phase: what is replayed is "the buffer this
							// call returned is written to by a later call" - try every
							// call of the pair alphabet as the later one
							for _, id := range alphabetIDs {
								b := byID[id]
								if b == nil {
									continue
								}
								ss := &session{}
								e.runS(layout{spare: c.Earlier.Spare, adj: c.Earlier.Adjacent}, ss)
								b.runS(pairLayout(b), ss)
								for _, w := range ss.later {
									fs = append(fs, laterFinding(w).f)
								}
							}
						}
					}
				case c.AfterGC:
					ss := &session{}
					sc.runS(lay, ss)
					for _, f := range ss.finish() {
						fs = append(fs, f.f)
					}
				default:
					fs, _ = sc.evaluate(lay)
				}
				seen := false
				const late = "/returned-buffer-written-by-later-call"
				for _, f := range fs {
					// (a late write may be attributed one function further in than in the parallel run)
					if (f.key == replay.Key || c.Earlier != nil && strings.HasSuffix(f.key, late) && strings.HasSuffix(replay.Key, late)) && !seen {
						seen = true
						r.Violation(replay.Key, f.msg, c)
					}
				}
				return
			}
			// a scenario of the thorough tier's length set
			setLens(true)
			scs = allScenarios()
		}
		r.Violation("machinery/unknown-scenario", c.Scenario, nil)
		return
	}
	r.Rule("complete product, no sampling: every exported function of crypto, crypto/aeskw, crypto/padding, crypto/aescbcaead that takes []byte x every algorithm it supports (+ an unsupported constant and a junk name) x its success path and each failure path (wrong key size, wrong nonce size, wrong tag size, failed authentication of tag / ciphertext, invalid padding, invalid plaintext / ciphertext length, unknown algorithm, wrong key kind, message too long, wrong label, bad signature ...) x lengths 0,1,15,16,17,31,32,33 (thorough: every length 0..34 and 47,48,49,63,64,65; key wrap 16,24,32,40) x spare-capacity layouts: every argument at once with spare 0,1,15,16,17,64 and each argument alone with spare 1,15,16,17,64 (AEAD dst also 160), and every ordered pair of input arguments contiguous in memory (b directly behind a, so that cap(a) extends over b; 0 and 16 bytes of spare behind b) x dst in {nil, empty, 4-byte prefix, input[:0]}. Every byte-slice argument, including the octets behind the jwk.Key, lies in one canary-filled arena; a case is a (scenario, layout) pair, distinct by construction, and non-trivial when some argument has spare capacity or is a destination. Length dimension: signatures, RSA ciphertexts, digests, keys, nonces and tags also at 0, 1, size-8..size-1, size+1, size+8 (cut at the end, cut at the front, zero-extended; a valid RSA signature / ciphertext with its leading zero byte stripped, found by deterministic search). Read-only pages: every scenario once more x spare {0,16,64} x {capacity ends at a page end, argument starts at a page start} with each input argument in mmap-ed pages of its own that are PROT_READ during the call (SetPanicOnFault; a fault names the argument): any write, also a temporary one that is undone or one of identical bytes, is a finding. Sequences: the buffers returned by the last 8 calls (whole capacity) are compared after every later call; every batch of 16 scenarios ends with two garbage collections (finalizers drained) and a re-verification of all its input arenas; all ordered pairs over an alphabet of 51 calls (function x implementation family) are run as A;B and with each slice A returns handed to B as each of B's input arguments (each such call is one more case).")
	r.Assume("Go slices give no way to write outside [0, cap): canaries cover len..cap of every argument, 32 guard bytes between arguments, and the arguments themselves")
	r.Assume("aliasing is judged on the []byte values a call returns (whole capacity) against each argument's [0, cap); a returned jwk.Key or cipher.AEAD that keeps a reference to key material is outside the property (it is about writes)")
	r.Assume("memory a call returns belongs to the caller: a later call that writes to it is charged to the call that returned it (key <earlier site>/returned-buffer-written-by-later-call); sync.Pool reuse is only observable on the same P without an intervening double GC, hence the single-threaded pair phase")
	r.Assume("aeskw.Unwrap inputs below 16 bytes are not fed (it panics before touching anything: C07)")

	ids := map[string]bool{}
	for _, sc := range scs {
		if ids[sc.id] {
			r.Violation("machinery/duplicate-scenario-id", sc.id, nil)
		}
		ids[sc.id] = true
	}
	var mu sync.Mutex
	outcomes := map[string]int{}
	perFn := map[string]int{}
	panics := map[string]int{}
	type pending struct {
		f finding
		c Case
	}
	_ = sort.Strings
	// Scenarios run in batches of batchSize on one goroutine each, inside a
	// session (returned buffers of the last 8 calls watched; arenas re-verified
	// after two garbage collections at the end of the batch).
	const batchSize = 16
	nb := (len(scs) + batchSize - 1) / batchSize
	found := make([][]pending, nb) // reported afterwards in batch order: deterministic output
	var lateWrites, gcChecked int64
	done := r.Parallel(nb, func(bi int) {
		runtime.LockOSThread()
		defer runtime.UnlockOSThread()
		ss := &session{}
		var cnt, nt int64
		loc := map[string]int{}
		fnCalls := map[string]int{}
		hi := (bi + 1) * batchSize
		if hi > len(scs) {
			hi = len(scs)
		}
		for _, sc := range scs[bi*batchSize : hi] {
			for _, lay := range layouts(sc) {
				fs, out := sc.evaluateS(lay, ss)
				cnt++
				nz := lay.adj != nil
				for j, a := range sc.args {
					nz = nz || (a.carve && (lay.spare[j] > 0 || a.dst))
				}
				if nz {
					nt++
				}
				loc[out.kind]++
				fnCalls[sc.fn]++
				if out.kind == "panic" {
					mu.Lock()
					panics[sc.id[:strings.Index(sc.id+"|", "|")]+": "+out.err]++
					mu.Unlock()
				}
				for _, f := range fs {
					found[bi] = append(found[bi], pending{f, Case{Scenario: sc.id, Spare: lay.spare, Adjacent: lay.adj, Layout: layoutString(sc, lay)}})
				}
			}
		}
		kept := len(ss.kept)
		for _, f := range ss.finish() {
			found[bi] = append(found[bi], pending{f.f, f.c})
		}
		r.Count(cnt, nt)
		mu.Lock()
		for k, v := range loc {
			outcomes[k] += v
		}
		for k, v := range fnCalls {
			perFn[k] += v
		}
		lateWrites += int64(len(ss.later))
		gcChecked += int64(kept)
		mu.Unlock()
	})
	n := len(scs)
	if done < nb {
		n = done * batchSize
	}

	// ---- read-only pages: every scenario with its input arguments in PROT_READ memory
	protFound := make([][]pending, nb)
	var protCalls int64
	if ok, why := protectionWorks(); !ok {
		r.Incomplete("read-only-page family not run: " + why)
	} else {
		pd := r.Parallel(nb, func(bi int) {
			runtime.LockOSThread()
			defer runtime.UnlockOSThread()
			old := debug.SetPanicOnFault(true)
			defer debug.SetPanicOnFault(old)
			reg := getRegion()
			if reg == nil {
				return
			}
			defer putRegion(reg)
			hi := (bi + 1) * batchSize
			if hi > len(scs) {
				hi = len(scs)
			}
			var calls int
			for _, sc := range scs[bi*batchSize : hi] {
				fs, cs, n := sc.evaluateProtected(reg)
				calls += n
				for i, f := range fs {
					protFound[bi] = append(protFound[bi], pending{f, cs[i]})
				}
			}
			r.Count(int64(calls), int64(calls))
			mu.Lock()
			protCalls += int64(calls)
			mu.Unlock()
		})
		releaseRegions()
		if pd == nb && protErr == nil {
			r.Space(fmt.Sprintf("read-only pages: all %d scenarios x spare {0,16,64} x {capacity ends at page end, argument starts at page start} = %d calls with every input argument in PROT_READ memory", len(scs), protCalls))
		} else {
			r.Incomplete(fmt.Sprintf("read-only pages: %d of %d batches (%v)", pd, nb, protErr))
		}
	}
	r.Set("calls_with_arguments_in_read_only_pages", protCalls)

	// ---- ordered pairs over the function x family alphabet
	byID := map[string]*scenario{}
	for _, sc := range scs {
		byID[sc.id] = sc
	}
	var alpha []*scenario
	for _, id := range alphabetIDs {
		if sc := byID[id]; sc != nil {
			alpha = append(alpha, sc)
		} else {
			r.Violation("machinery/alphabet-scenario-missing", id, nil)
		}
	}
	pairFound := make([][]pending, len(alpha))
	var seqPairs, handPairs, handCalls int64
	// The pair phase runs on ONE goroutine, after the parallel phase: with
	// nothing else running, "B wrote to what A returned / was handed" is exact
	// (a sync.Pool hands a buffer put back on this P to the next Get on this P).
	runtime.LockOSThread()
	pdone := 0
	for ai := range alpha {
		if r.Expired() {
			break
		}
		pdone++
		a := alpha[ai]
		var sp, hp, hc int64
		// (1) sequences: A, then B, in one session - B must not write to what A returned
		ss := &session{}
		for _, b := range alpha {
			a.runS(pairLayout(a), ss)
			b.runS(pairLayout(b), ss)
			sp++
		}
		for _, f := range ss.finish() {
			pairFound[ai] = append(pairFound[ai], pending{f.f, f.c})
		}
		// (2) hand-overs: each slice A returns as each input argument of B
		for _, b := range alpha {
			any := false
			for res := 0; res < 2; res++ {
				for arg, x := range b.args {
					if !x.carve || x.dst {
						continue
					}
					fs, ran := handOver(a, b, res, arg)
					if !ran {
						continue
					}
					any = true
					hc++
					perKey := map[string]bool{}
					for _, f := range fs {
						if perKey[f.key] {
							continue
						}
						perKey[f.key] = true
						pairFound[ai] = append(pairFound[ai], pending{f, Case{Scenario: b.id, Spare: pairLayout(b).spare, Layout: layoutString(b, pairLayout(b)), Hand: &Hand{A: a.id, Res: res, Arg: arg}}})
					}
				}
			}
			if any {
				hp++
			}
		}
		r.Count(sp+hc, sp+hc)
		seqPairs += sp
		handPairs += hp
		handCalls += hc
	}
	runtime.UnlockOSThread()
	for _, ps := range found {
		for _, p := range ps {
			r.Violation(p.f.key, p.f.msg, p.c)
		}
	}
	for _, ps := range protFound {
		for _, p := range ps {
			r.Violation(p.f.key, p.f.msg, p.c)
		}
	}
	for _, ps := range pairFound {
		for _, p := range ps {
			r.Violation(p.f.key, p.f.msg, p.c)
		}
	}
	if pdone == len(alpha) {
		r.Space(fmt.Sprintf("ordered pairs over an alphabet of %d calls (function x implementation family): %d sequences A;B (returned buffers of A watched while B runs), %d pairs with a hand-over (%d B-calls: each slice A returns as each input argument of B)", len(alpha), seqPairs, handPairs, handCalls))
	} else {
		r.Incomplete(fmt.Sprintf("ordered pairs: %d of %d first calls done when the budget expired", pdone, len(alpha)))
	}
	r.Set("pair_alphabet", len(alpha))
	r.Set("pair_sequences", seqPairs)
	r.Set("pair_handover_pairs", handPairs)
	r.Set("pair_handover_calls", handCalls)
	r.Set("arenas_reverified_after_gc", gcChecked)
	r.Set("late_writes_to_returned_buffers", lateWrites)
	if n == len(scs) {
		r.Space(fmt.Sprintf("%d scenarios (function x algorithm x path x length x dst variant) x all spare-capacity layouts", len(scs)))
	} else {
		r.Incomplete(fmt.Sprintf("%d of %d scenarios evaluated when the budget expired", n, len(scs)))
	}
	r.Set("scenarios", len(scs))
	r.Set("calls_per_function", perFn)
	oc := map[string]int{}
	for k, v := range outcomes {
		if v > 0 {
			oc[k] = v
		}
	}
	r.Set("call_outcomes", oc)
	r.Set("panics_by_function_and_message", panics)
	if os.Getenv("C17_VERBOSE") != "" {
		var ks []string
		for k := range perFn {
			ks = append(ks, k)
		}
		sort.Strings(ks)
		for _, k := range ks {
			fmt.Printf("  %-45s %d calls\n", k, perFn[k])
		}
		fmt.Println("  outcomes:", oc)
		fmt.Println("  panics:", panics)
	}
	for _, i := range []int{0, len(scs) / 3, 2 * len(scs) / 3, len(scs) - 1} {
		lay := layouts(scs[i])
		r.Sample(Case{Scenario: scs[i].id, Spare: lay[len(lay)-1].spare, Adjacent: lay[len(lay)-1].adj, Layout: layoutString(scs[i], lay[len(lay)-1])})
	}
}
