package c17

import (
	"bytes"
	"fmt"
	"runtime/debug"
	"sync"
	"syscall"
	"unsafe"
)

// Read-only pages: the arena comparison sees what a buffer looks like AFTER a
// call; a function that writes to argument memory and puts the old bytes back
// before it returns (or writes the bytes that are there already) leaves no
// trace. "Treated as read-only" excludes that too: so every scenario is also
// run with its input arguments - length AND spare capacity, surrounded by
// canaries - inside pages obtained from mmap and set to PROT_READ for the
// duration of the call. The calling goroutine has SetPanicOnFault(true): a
// write faults, the fault surfaces as a runtime.Error with the address, and the
// address names the argument (every argument has pages of its own). An explicit
// AEAD destination stays in ordinary writable memory.

const protSlots = 8 // arguments per call (the most any function takes is 5)

type protRegion struct {
	mem      []byte
	slotSize int
}

var (
	protMu   sync.Mutex
	protFree []*protRegion
	protAll  []*protRegion
	protErr  error
)

func getRegion() *protRegion {
	protMu.Lock()
	defer protMu.Unlock()
	if protErr != nil {
		return nil
	}
	if n := len(protFree); n > 0 {
		r := protFree[n-1]
		protFree = protFree[:n-1]
		return r
	}
	slot := 2 * syscall.Getpagesize()
	mem, err := syscall.Mmap(-1, 0, protSlots*slot, syscall.PROT_READ|syscall.PROT_WRITE, syscall.MAP_ANON|syscall.MAP_PRIVATE)
	if err != nil {
		protErr = err
		return nil
	}
	r := &protRegion{mem: mem, slotSize: slot}
	protAll = append(protAll, r)
	return r
}

func putRegion(r *protRegion) {
	protMu.Lock()
	protFree = append(protFree, r)
	protMu.Unlock()
}

// releaseRegions unmaps everything (after the collector has run, so that no
// finalizer of the code under test finds its memory gone).
func releaseRegions() {
	gcSettle()
	protMu.Lock()
	defer protMu.Unlock()
	for _, r := range protAll {
		syscall.Munmap(r.mem)
	}
	protAll, protFree = nil, nil
}

type protFault struct {
	role string
	addr uintptr
	off  int // offset of the faulting address relative to the argument's first byte
	n    int // the argument's length
}

// runProtected calls the scenario once with every input argument in read-only
// pages. alignEnd: the argument's capacity ends exactly at the end of its
// pages; otherwise it starts at the start of its pages.
func (sc *scenario) runProtected(r *protRegion, spare int, alignEnd bool) (fault *protFault, changed string, out outcome, ok bool) {
	if len(sc.args) > protSlots {
		return nil, "", out, false
	}
	for i := range r.mem {
		r.mem[i] = canary(i, alignEnd)
	}
	slices := make([][]byte, len(sc.args))
	type rng struct{ lo, hi, start uintptr }
	ranges := make([]rng, len(sc.args))
	base := uintptr(unsafe.Pointer(unsafe.SliceData(r.mem)))
	for i, a := range sc.args {
		switch {
		case !a.carve:
			slices[i] = a.data
		case a.dst:
			// the explicit destination (or an input used in place as destination) is the caller's to be written
			d := make([]byte, len(a.data), len(a.data)+spare+160)
			copy(d, a.data)
			slices[i] = d
		default:
			need := len(a.data) + spare
			if need > r.slotSize {
				return nil, "", out, false
			}
			off := i * r.slotSize
			if alignEnd {
				off += r.slotSize - need
			}
			copy(r.mem[off:], a.data)
			slices[i] = r.mem[off : off+len(a.data) : off+need]
			ranges[i] = rng{base + uintptr(i*r.slotSize), base + uintptr((i+1)*r.slotSize), base + uintptr(off)}
		}
	}
	before := clone(r.mem)
	if err := syscall.Mprotect(r.mem, syscall.PROT_READ); err != nil {
		protMu.Lock()
		protErr = err
		protMu.Unlock()
		return nil, "", out, false
	}
	out = sc.call(slices)
	if err := syscall.Mprotect(r.mem, syscall.PROT_READ|syscall.PROT_WRITE); err != nil {
		panic(err)
	}
	if out.kind == "panic" {
		if f, isFault := out.pval.(interface{ Addr() uintptr }); isFault {
			addr := f.Addr()
			fault = &protFault{role: "?", addr: addr}
			for i, g := range ranges {
				if g.hi != 0 && addr >= g.lo && addr < g.hi {
					fault.role, fault.off, fault.n = sc.args[i].role, int(addr)-int(g.start), len(sc.args[i].data)
				}
			}
		}
	}
	if !bytes.Equal(before, r.mem) {
		f, t := diffRange(r.mem, before)
		changed = fmt.Sprintf("bytes %d..%d of the protected region differ after the call", f, t)
	}
	return fault, changed, out, true
}

// evaluateProtected runs the variants of one scenario and attributes a fault
// to the innermost exported function that faults on the same argument.
func (sc *scenario) evaluateProtected(r *protRegion) (fs []finding, cs []Case, calls int) {
	for _, spare := range []int{0, 16, 64} {
		for _, alignEnd := range []bool{true, false} {
			fault, changed, out, ok := sc.runProtected(r, spare, alignEnd)
			if !ok {
				continue
			}
			calls++
			c := Case{Scenario: sc.id, Spare: []int{spare}, Layout: fmt.Sprintf("read-only pages, spare %d, %s", spare, map[bool]string{true: "capacity ends at the page end", false: "argument starts at the page start"}[alignEnd]), Protected: true, AlignEnd: alignEnd}
			if changed != "" {
				fs = append(fs, finding{sc.site + "/read-only-argument-memory-changed", sc.id + " " + c.Layout + ": " + changed})
				cs = append(cs, c)
			}
			if fault == nil {
				continue
			}
			site, via := sc.site, ""
			for cur := sc; cur.inner != nil; {
				in := cur.inner()
				if in == nil {
					break
				}
				f2, _, _, ok2 := in.runProtected(r, spare, alignEnd)
				if !ok2 || f2 == nil || f2.role != fault.role {
					break
				}
				site, via = in.site, " (seen through "+sc.fn+")"
				cur = in
			}
			where := fmt.Sprintf("offset %d of the %d-byte argument", fault.off, fault.n)
			if fault.off >= fault.n {
				where = fmt.Sprintf("its spare capacity, %d bytes behind its length of %d", fault.off-fault.n, fault.n)
			}
			fs = append(fs, finding{site + "/writes-to-read-only-argument-memory", fmt.Sprintf("%s [%s]%s: the call wrote to argument %q (%s) while its memory was read-only - a write that the comparison after the call cannot see if the old bytes are put back. Fault address %#x; call outcome: %s", sc.id, c.Layout, via, fault.role, where, fault.addr, out.err)})
			cs = append(cs, c)
		}
	}
	return fs, cs, calls
}

// protectionWorks checks that this process can do what the family needs: a
// write to an mprotect-ed page is turned into a recoverable fault with an address.
func protectionWorks() (ok bool, why string) {
	r := getRegion()
	if r == nil {
		return false, fmt.Sprint("mmap: ", protErr)
	}
	defer putRegion(r)
	if err := syscall.Mprotect(r.mem, syscall.PROT_READ); err != nil {
		return false, fmt.Sprint("mprotect: ", err)
	}
	defer syscall.Mprotect(r.mem, syscall.PROT_READ|syscall.PROT_WRITE)
	old := debug.SetPanicOnFault(true)
	defer debug.SetPanicOnFault(old)
	var got any
	func() {
		defer func() { got = recover() }()
		copy(r.mem[100:], []byte{1, 2, 3})
	}()
	f, isFault := got.(interface{ Addr() uintptr })
	if !isFault {
		return false, fmt.Sprintf("a write to a read-only page did not become a fault with an address (recovered %v)", got)
	}
	base := uintptr(unsafe.Pointer(unsafe.SliceData(r.mem)))
	if f.Addr() < base || f.Addr() >= base+uintptr(len(r.mem)) {
		return false, fmt.Sprintf("fault address %#x outside the page", f.Addr())
	}
	return true, ""
}
