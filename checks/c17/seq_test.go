package c17

import (
	"bytes"
	"fmt"
	"runtime"
	"strings"
	"sync"
	"time"
	"unsafe"
)

// A session is what one worker remembers across the calls of a batch:
//
//   - the buffers the last ringSize calls RETURNED, each with a copy. Memory a
//     call returns belongs to the caller; no later call (of any function) may
//     write to it - the whole capacity s[:cap(s)] is compared after every call;
//   - every input arena with its contents right after the call. After the
//     batch the garbage collector is run twice (finalizers given time to run)
//     and all arenas are compared again: a write that happens after the call
//     returned (finalizer, background goroutine) is a write to caller memory too.
type session struct {
	ring  []retained
	kept  []keptArena
	later []laterWrite
	calls int
}

const ringSize = 8

type retained struct {
	sc   *scenario
	lay  layout
	call int // sequence number of the call in the session
	name string
	buf  []byte // s[:cap(s)] of the returned slice
	want []byte
}

type keptArena struct {
	sc    *scenario
	lay   layout
	arena []byte
	after []byte
	spans []span
	out   outcome
}

// laterWrite: a call wrote to a buffer an earlier call had returned.
type laterWrite struct {
	earlier, later       *scenario
	earlierLay, laterLay layout
	name                 string
	off                  int
	now, was             []byte
}

func (ss *session) afterCall(sc *scenario, l layout, arena []byte, spans []span, out outcome) {
	// 1. the buffers returned earlier
	for i := range ss.ring {
		r := &ss.ring[i]
		if bytes.Equal(r.buf, r.want) {
			continue
		}
		f, t := diffRange(r.buf, r.want)
		if f < 0 {
			continue // (a buffer shared with a pool can be changing under us)
		}
		ss.later = append(ss.later, laterWrite{earlier: r.sc, later: sc, earlierLay: r.lay, laterLay: l, name: r.name, off: f, now: clone(r.buf[f:t]), was: clone(r.want[f:t])})
		copy(r.want, r.buf) // report each write once
	}
	// 2. remember what this call returned
	n := ss.calls
	ss.calls++
	for i, b := range out.results {
		if cap(b) == 0 {
			continue
		}
		full := b[:cap(b)]
		ss.ring = append(ss.ring, retained{sc: sc, lay: l, call: n, name: out.names[i], buf: full, want: clone(full)})
	}
	for len(ss.ring) > 0 && ss.ring[0].call+ringSize <= n {
		ss.ring = ss.ring[1:]
	}
	// 3. keep the arena for the pass after garbage collection
	ss.kept = append(ss.kept, keptArena{sc: sc, lay: l, arena: arena, after: clone(arena), spans: spans, out: out})
}

func diffRange(a, b []byte) (first, end int) {
	first, end = -1, 0
	for i := range a {
		if a[i] != b[i] {
			if first < 0 {
				first = i
			}
			end = i + 1
		}
	}
	return first, end
}

// gcSettle runs the collector twice and waits, each time, until a finalizer
// registered just before has run (finalizers run on one goroutine, in the order
// the collector queued them), so that finalizers of objects the batch dropped
// have had their chance to write.
func gcSettle() {
	for i := 0; i < 2; i++ {
		done := make(chan struct{})
		x := new([64]byte)
		runtime.SetFinalizer(x, func(*[64]byte) { close(done) })
		x = nil
		runtime.GC()
		select {
		case <-done:
		case <-time.After(300 * time.Millisecond):
		}
		runtime.Gosched()
	}
}

// recheck compares every kept arena with its contents right after its call.
func (ss *session) recheck() (out []struct {
	k     keptArena
	conds []cond
}) {
	for _, k := range ss.kept {
		if bytes.Equal(k.arena, k.after) {
			continue
		}
		// (destination bytes are caller memory as well once the call has returned)
		plain := *k.sc
		plain.args = append([]arg{}, k.sc.args...)
		for i := range plain.args {
			if plain.args[i].dst {
				plain.args[i].dst = false
			}
		}
		conds := judge(&plain, k.arena, k.after, k.spans, outcome{})
		out = append(out, struct {
			k     keptArena
			conds []cond
		}{k, conds})
	}
	return out
}

// postGC runs a scenario alone, collects, and reports what changed afterwards
// (used to attribute a late write to the innermost function).
func postGC(sc *scenario, l layout) []cond {
	// one verdict per (function, algorithm, path): the late write does not
	// depend on lengths or layout, and every verdict costs two collections
	id := sc.site + "|" + sc.fn + "|" + pathOf(sc.id)
	postGCMu.Lock()
	if c, ok := postGCMemo[id]; ok {
		postGCMu.Unlock()
		return c
	}
	postGCMu.Unlock()
	c := postGCRun(sc, l)
	postGCMu.Lock()
	postGCMemo[id] = c
	postGCMu.Unlock()
	return c
}

var (
	postGCMu   sync.Mutex
	postGCMemo = map[string][]cond{}
)

// pathOf drops the length / layout-ish parts of a scenario id.
func pathOf(id string) string {
	var keep []string
	for _, p := range strings.Split(id, "|") {
		if strings.HasPrefix(p, "len=") || strings.HasPrefix(p, "aad#") || p == "inner" {
			continue
		}
		keep = append(keep, p)
	}
	return strings.Join(keep, "|")
}

func postGCRun(sc *scenario, l layout) []cond {
	ss := &session{}
	sc.runS(l, ss)
	gcSettle()
	var all []cond
	for _, r := range ss.recheck() {
		all = append(all, r.conds...)
	}
	return all
}

const afterGCNote = " - AFTER the call had returned (found when the arena was re-verified after two garbage collections: a finalizer or background goroutine wrote to it)"

// finish ends a batch: late writes to returned buffers, then the collection pass.
func (ss *session) finish() (fs []seqFinding) {
	for _, w := range ss.later {
		fs = append(fs, laterFinding(w))
	}
	gcSettle()
	// the collector may also have released buffers into which a later call writes: one more look at the ring
	for _, r := range ss.recheck() {
		for _, f := range r.k.sc.attribute(r.k.lay, r.conds, r.k.out, afterGCNote, postGC) {
			fs = append(fs, seqFinding{f: f, c: Case{Scenario: r.k.sc.id, Spare: r.k.lay.spare, Adjacent: r.k.lay.adj, Layout: layoutString(r.k.sc, r.k.lay), AfterGC: true}})
		}
	}
	return fs
}

type seqFinding struct {
	f finding
	c Case
}

// writesToEarlierResult replays "earlier, then later" in a fresh session and
// says whether later wrote to a buffer earlier returned.
func writesToEarlierResult(earlier *scenario, el layout, later *scenario, ll layout) bool {
	ss := &session{}
	earlier.runS(el, ss)
	later.runS(ll, ss)
	// (runS makes two calls per scenario - canary and complement - so "earlier"
	// itself is followed by a call as well; only writes seen while "later" ran count)
	for _, w := range ss.later {
		if w.later == later {
			return true
		}
	}
	return false
}

// laterFinding: the defect is that the EARLIER call returned memory it (or a
// pool behind it) still uses, so the finding is keyed by the earlier call -
// innermost exported function that still shows it when followed by the same
// later call. (Which later call did the writing can be a different worker's when
// the memory is shared through a pool; it is named in the message only.)
func laterFinding(w laterWrite) seqFinding {
	site, via := w.earlier.site, ""
	for cur, lay := w.earlier, w.earlierLay; cur.inner != nil; {
		in := cur.inner()
		if in == nil {
			break
		}
		il := layoutFor(in, cur, lay)
		if !writesToEarlierResult(in, il, w.later, w.laterLay) {
			break
		}
		site, via = in.site, " (seen through "+w.earlier.fn+")"
		cur, lay = in, il
	}
	key := site + "/returned-buffer-written-by-later-call"
	msg := fmt.Sprintf("the buffer that %s %s%s returned as %q was written to afterwards, while %s %s ran (offset %d of its capacity: was %x, now %x). Memory a call returns belongs to the caller.",
		w.earlier.id, layoutString(w.earlier, w.earlierLay), via, w.name, w.later.id, layoutString(w.later, w.laterLay), w.off, trunc(w.was), trunc(w.now))
	return seqFinding{finding{key, msg}, Case{Scenario: w.later.id, Spare: w.laterLay.spare, Adjacent: w.laterLay.adj, Layout: layoutString(w.later, w.laterLay),
		Earlier: &Case{Scenario: w.earlier.id, Spare: w.earlierLay.spare, Adjacent: w.earlierLay.adj, Layout: layoutString(w.earlier, w.earlierLay)}}}
}

func trunc(b []byte) []byte {
	if len(b) > 32 {
		return b[:32]
	}
	return b
}

// ---------------------------------------------------------------------------
// ordered pairs over the function x algorithm-family alphabet

// alphabetIDs: one successful call per exported function and implementation
// family, all with 32-byte messages and 32-byte symmetric keys so that what one
// call returns is a plausible argument of the next (unwrap a key, then use it).
var alphabetIDs = func() []string {
	var ids []string
	for _, fam := range []string{"A256CBC", "A256CBC-NOPAD", "A256GCM", "A128CBC-HS256", "C20P", "XC20P", "A256KW"} {
		for _, fn := range []string{"EncryptSymmetric", "Encrypt", "DecryptSymmetric", "Decrypt"} {
			ids = append(ids, fmt.Sprintf("crypto.%s|%s|ok|aad#1|len=32", fn, fam))
		}
	}
	for _, fam := range []string{"RSA1_5", "RSA-OAEP-256"} {
		for _, fn := range []string{"EncryptPublicKey", "Encrypt", "DecryptPrivateKey", "Decrypt"} {
			ids = append(ids, fmt.Sprintf("crypto.%s|%s|asym:ok|len=32", fn, fam))
		}
	}
	for _, fam := range []string{"RS256", "PS256", "ES256", "EdDSA"} {
		ids = append(ids, fmt.Sprintf("crypto.SignPrivateKey|%s|ok|len=32", fam), fmt.Sprintf("crypto.VerifyPublicKey|%s|ok|len=32", fam))
	}
	return append(ids,
		"aeskw.Wrap|kek=32|len=32", "aeskw.Unwrap|ok|kek=32|len=32",
		"padding.PadPKCS7|size=16|len=32", "padding.UnpadPKCS7|ok|size=16|len=32",
		"aescbcaead.Seal|NewAESCBC128SHA256|ok|len=32|aad#1|dst=nil", "aescbcaead.Open|NewAESCBC128SHA256|ok|len=32|aad#1|dst=nil",
		`crypto.ParseKey|raw-32-bytes|contentType=""|len=32`)
}()

func pairLayout(sc *scenario) layout {
	l := layout{spare: make([]int, len(sc.args))}
	for i := range l.spare {
		l.spare[i] = 16
	}
	return l
}

// handOver runs A, then B with B's argument number argB replaced by the slice A
// returned as result number resA - the very slice, with the length and capacity
// A gave it - and reports writes to it (whole capacity) and to B's own arena.
func handOver(a, b *scenario, resA, argB int) (fs []finding, ran bool) {
	la, lb := pairLayout(a), pairLayout(b)
	arenaA, slicesA, _ := carveArena(a.args, la, false)
	outA := a.call(slicesA)
	if resA >= len(outA.results) || cap(outA.results[resA]) == 0 {
		return nil, false
	}
	given := outA.results[resA]
	full := given[:cap(given)]
	want := clone(full)
	afterA := clone(arenaA)

	arenaB, slicesB, spansB := carveArena(b.args, lb, false)
	before := clone(arenaB)
	slicesB[argB] = given
	outB := b.call(slicesB)
	role := b.args[argB].role
	what := fmt.Sprintf("%s after %s, with the %q returned by the first call handed in as %s (len %d, cap %d)", b.id, a.id, outA.names[resA], role, len(given), cap(given))
	if !bytes.Equal(full, want) && writesToEarlierResult(a, la, b, lb) {
		// B writes to what A returned even when it is NOT handed in: A's result
		// is not exclusively the caller's; the sequence oracle reports that
	} else if !bytes.Equal(full, want) {
		f, t := diffRange(full, want)
		if f < 0 {
			f, t = 0, 0
		}
		region := "overwrites-" + role
		if f >= len(given) {
			region = "appends-into-" + role + "-capacity"
		}
		fs = append(fs, finding{b.site + "/" + region, fmt.Sprintf("%s: the handed-in buffer was written at offset %d: was %x, now %x; outcome %s %s", what, f, trunc(want[f:t]), trunc(full[f:t]), outB.kind, outB.err)})
	}
	if !bytes.Equal(arenaA, afterA) {
		f, t := diffRange(arenaA, afterA)
		if f < 0 {
			f, t = 0, 0
		}
		fs = append(fs, finding{b.site + "/writes-to-arguments-of-earlier-call", fmt.Sprintf("%s: the first call's argument arena changed at %d: now %x", what, f, trunc(arenaA[f:t]))})
	}
	// B's own arena and results; a result sharing memory with the handed-in buffer is aliasing of that argument
	for _, c := range judge(b, arenaB, before, spansB, outB) {
		fs = append(fs, finding{b.site + "/" + b.condName(c), what + ": " + c.describe()})
	}
	lo := uintptr(unsafe.Pointer(unsafe.SliceData(full)))
	hi := lo + uintptr(len(full))
	for i, r := range outB.results {
		if cap(r) == 0 || b.mayAlias[role] {
			continue
		}
		rlo := uintptr(unsafe.Pointer(unsafe.SliceData(r)))
		if rlo < hi && lo < rlo+uintptr(cap(r)) {
			fs = append(fs, finding{b.site + "/result-" + outB.names[i] + "-aliases-" + role, what + ": the result shares memory with the handed-in buffer"})
		}
	}
	return fs, true
}
