// Package parser is the "parser" part of C04: every expression derivable from
// the documented field grammar (exhaustively for single terms, all lists of
// <= 2 terms from a 12-term menu per field) under every parser option set and
// time-zone prefix is parsed by kit and by the reference parser written from
// doc.go; the resulting value sets, day-field star flags, location and
// @every delay must agree, and every generator of a refusal class must be
// answered with an error.
package parser

import (
	"encoding/json"
	"fmt"
	"sort"
	"strings"
	"sync"
	"sync/atomic"
	"testing"
	"time"
	_ "time/tzdata"

	"github.com/dapr/kit/cron"

	"verif/enumx"
	"verif/ref/cronref"
)

func TestCheck(t *testing.T) { enumx.Main(t, "C04", "parser", run) }

// ---- parser option sets -------------------------------------------------

type config struct {
	Name string
	Opt  cron.ParseOption
	Lay  cronref.Layout
	Both bool // a field bit together with its own Optional bit
}

func configs() []config {
	base := []config{
		{"standard", cron.Minute | cron.Hour | cron.Dom | cron.Month | cron.Dow,
			cronref.Layout{Minute: true, Hour: true, Dom: true, Month: true, Dow: cronref.Required}, false},
		{"seconds", cron.Second | cron.Minute | cron.Hour | cron.Dom | cron.Month | cron.Dow,
			cronref.Layout{Second: cronref.Required, Minute: true, Hour: true, Dom: true, Month: true, Dow: cronref.Required}, false},
		{"optional-seconds", cron.SecondOptional | cron.Minute | cron.Hour | cron.Dom | cron.Month | cron.Dow,
			cronref.Layout{Second: cronref.Optional, Minute: true, Hour: true, Dom: true, Month: true, Dow: cronref.Required}, false},
		{"optional-dow", cron.Minute | cron.Hour | cron.Dom | cron.Month | cron.DowOptional,
			cronref.Layout{Minute: true, Hour: true, Dom: true, Month: true, Dow: cronref.Optional}, false},
		{"seconds+optional-dow", cron.Second | cron.Minute | cron.Hour | cron.Dom | cron.Month | cron.DowOptional,
			cronref.Layout{Second: cronref.Required, Minute: true, Hour: true, Dom: true, Month: true, Dow: cronref.Optional}, false},
		{"days-only", cron.Dom | cron.Month | cron.Dow,
			cronref.Layout{Dom: true, Month: true, Dow: cronref.Required}, false},
	}
	var out []config
	for _, c := range base {
		out = append(out, c)
		d := c
		d.Name += "+descriptors"
		d.Opt |= cron.Descriptor
		d.Lay.Descriptors = true
		out = append(out, d)
	}
	// A field bit together with its own Optional bit (NewParser accepts that; it
	// only refuses two Optional flags). Reading: ParseOption documents
	// SecondOptional / DowOptional as "Optional seconds / day of week field" and
	// the parser folds the Optional flag into the field bit, so the field exists
	// once and may be left out - the same expressions as with the Optional flag
	// alone: n-1 or n fields, never n+1.
	both := []config{
		{"seconds|optional-seconds", cron.Second | cron.SecondOptional | cron.Minute | cron.Hour | cron.Dom | cron.Month | cron.Dow,
			cronref.Layout{Second: cronref.Optional, Minute: true, Hour: true, Dom: true, Month: true, Dow: cronref.Required}, false},
		{"dow|optional-dow", cron.Minute | cron.Hour | cron.Dom | cron.Month | cron.Dow | cron.DowOptional,
			cronref.Layout{Minute: true, Hour: true, Dom: true, Month: true, Dow: cronref.Optional}, false},
		{"seconds+dow|optional-dow", cron.Second | cron.Minute | cron.Hour | cron.Dom | cron.Month | cron.Dow | cron.DowOptional,
			cronref.Layout{Second: cronref.Required, Minute: true, Hour: true, Dom: true, Month: true, Dow: cronref.Optional}, false},
		{"days-only dow|optional-dow", cron.Dom | cron.Month | cron.Dow | cron.DowOptional,
			cronref.Layout{Dom: true, Month: true, Dow: cronref.Optional}, false},
	}
	for _, c := range both {
		c.Both = true
		out = append(out, c)
		d := c
		d.Name += "+descriptors"
		d.Opt |= cron.Descriptor
		d.Lay.Descriptors = true
		out = append(out, d)
	}
	return out
}

var fieldNames = []string{"second", "minute", "hour", "dom", "month", "dow"}

// present: which of the six fields an expression of this config has; opt: the
// index of the optional one or -1.
func (c config) present() (p [6]bool, opt int) {
	opt = -1
	p[0] = c.Lay.Second != cronref.Absent
	p[1], p[2], p[3], p[4] = c.Lay.Minute, c.Lay.Hour, c.Lay.Dom, c.Lay.Month
	p[5] = c.Lay.Dow != cronref.Absent
	if c.Lay.Second == cronref.Optional {
		opt = 0
	}
	if c.Lay.Dow == cronref.Optional {
		opt = 5
	}
	return
}

// assemble builds the expression for a config from six per-field tokens;
// omit leaves the optional field out.
func (c config) assemble(tok [6]string, omit bool) string {
	p, opt := c.present()
	var parts []string
	for f := 0; f < 6; f++ {
		if !p[f] || (omit && f == opt) {
			continue
		}
		parts = append(parts, tok[f])
	}
	return strings.Join(parts, " ")
}

var (
	baseDistinct = [6]string{"11", "22", "13", "24", "5", "6"}
	baseStars    = [6]string{"*", "*", "*", "*", "*", "*"}
)

// ---- the comparison -----------------------------------------------------

type outcome struct {
	skip bool // the reference gives no meaning and no refusal: outside the property
	ok   bool
	kind string // what differs
	msg  string
}

var zoneCache sync.Map

func init() {
	orig := cronref.ZoneKnown
	cronref.ZoneKnown = func(name string) bool {
		if v, ok := zoneCache.Load(name); ok {
			return v.(bool)
		}
		k := orig(name)
		zoneCache.Store(name, k)
		return k
	}
}

const low63 = uint64(1)<<63 - 1

func compare(c config, spec string) (out outcome) {
	ref := cronref.Parse(spec, c.Lay)
	if ref.Verdict == cronref.Undefined {
		return outcome{skip: true, ok: true}
	}
	var sched cron.Schedule
	var err error
	func() {
		defer func() {
			if p := recover(); p != nil {
				err = nil
				out = outcome{kind: "panic", msg: fmt.Sprintf("Parse(%q) with %s panicked: %v", spec, c.Name, p)}
			}
		}()
		sched, err = cron.NewParser(c.Opt).Parse(spec)
	}()
	if out.kind == "panic" {
		return out
	}
	if ref.Verdict == cronref.Refuse {
		if err == nil {
			return outcome{kind: "accepted", msg: fmt.Sprintf("Parse(%q) with %s returned no error, but the expression is in a refusal class (%s); it was given the meaning %s", spec, c.Name, ref.Why, describe(sched))}
		}
		return outcome{ok: true}
	}
	if err != nil {
		return outcome{kind: "rejected", msg: fmt.Sprintf("Parse(%q) with %s: error %q, but the documented grammar gives it a meaning", spec, c.Name, err)}
	}
	return matchSched(sched, ref.Sched, spec, c.Name)
}

// matchSched compares a schedule kit returned with the documented meaning.
func matchSched(sched cron.Schedule, want cronref.Schedule, spec, cname string) outcome {
	c := struct{ Name string }{cname}
	if want.IsEvery {
		cd, ok := sched.(cron.ConstantDelaySchedule)
		if !ok {
			return outcome{kind: "type", msg: fmt.Sprintf("Parse(%q): %T, want a constant delay", spec, sched)}
		}
		if cd.Delay != want.Every {
			return outcome{kind: "delay", msg: fmt.Sprintf("Parse(%q): delay %v, documented %v", spec, cd.Delay, want.Every)}
		}
		return outcome{ok: true}
	}
	ss, ok := sched.(*cron.SpecSchedule)
	if !ok {
		return outcome{kind: "type", msg: fmt.Sprintf("Parse(%q): %T, want *SpecSchedule", spec, sched)}
	}
	got := [6]uint64{ss.Second, ss.Minute, ss.Hour, ss.Dom, ss.Month, ss.Dow}
	exp := [6]uint64{want.Sec, want.Min, want.Hour, want.Dom, want.Month, want.Dow}
	for f := 0; f < 6; f++ {
		if got[f]&low63 != exp[f] {
			return outcome{kind: "set-" + fieldNames[f], msg: fmt.Sprintf("Parse(%q) with %s: %s set %s, documented meaning %s", spec, c.Name, fieldNames[f], setString(got[f]&low63), setString(exp[f]))}
		}
	}
	for _, d := range []struct {
		f    int
		star cronref.Tri
	}{{3, want.DomStar}, {5, want.DowStar}} {
		if d.star == cronref.Unspecified {
			continue
		}
		if (got[d.f]>>63 == 1) != (d.star == cronref.Yes) {
			return outcome{kind: "star-" + fieldNames[d.f], msg: fmt.Sprintf("Parse(%q) with %s: %s treated as unrestricted=%v, documented %v (decides both-days vs either-day matching)", spec, c.Name, fieldNames[d.f], got[d.f]>>63 == 1, d.star)}
		}
	}
	if want.Zone == "" {
		if ss.Location != time.Local {
			return outcome{kind: "location", msg: fmt.Sprintf("Parse(%q): location %v, want time.Local", spec, ss.Location)}
		}
	} else if ss.Location == nil || ss.Location.String() != want.Zone {
		return outcome{kind: "location", msg: fmt.Sprintf("Parse(%q): location %v, want %s", spec, ss.Location, want.Zone)}
	}
	return outcome{ok: true}
}

func setString(s uint64) string {
	var vs []string
	for i := 0; i < 64; i++ {
		if s>>uint(i)&1 == 1 {
			j := i
			for j+1 < 64 && s>>uint(j+1)&1 == 1 {
				j++
			}
			if j > i+1 {
				vs = append(vs, fmt.Sprintf("%d-%d", i, j))
				i = j
			} else {
				vs = append(vs, fmt.Sprint(i))
			}
		}
	}
	return "{" + strings.Join(vs, ",") + "}"
}

func describe(s cron.Schedule) string {
	switch x := s.(type) {
	case *cron.SpecSchedule:
		return fmt.Sprintf("sec%s min%s hour%s dom%s month%s dow%s", setString(x.Second&low63), setString(x.Minute&low63), setString(x.Hour&low63), setString(x.Dom&low63), setString(x.Month&low63), setString(x.Dow&low63))
	case cron.ConstantDelaySchedule:
		return fmt.Sprintf("every %v", x.Delay)
	}
	return fmt.Sprintf("%T", s)
}

// ---- term generators ------------------------------------------------------

type term struct {
	Text string
	Form string // shape of the term, part of the finding key
}

func caseVariants(name string) []string {
	var out []string
	for m := 0; m < 1<<uint(len(name)); m++ {
		b := []byte(strings.ToLower(name))
		for i := range b {
			if m>>uint(i)&1 == 1 {
				b[i] -= 'a' - 'A'
			}
		}
		out = append(out, string(b))
	}
	return out
}

func title(s string) string { return s[:1] + strings.ToLower(s[1:]) }

// validTerms: every single term of the documented grammar for field f.
func validTerms(f int) []term {
	lo, hi := cronref.Range(f)
	var ts []term
	add := func(form, format string, a ...any) { ts = append(ts, term{fmt.Sprintf(format, a...), form}) }
	add("*", "*")
	if f == 3 || f == 5 {
		add("?", "?")
	}
	for n := lo; n <= hi; n++ {
		add("N", "%d", n)
		if n < 10 {
			add("0N", "0%d", n)
		}
	}
	for s := 1; s <= hi+1; s++ {
		add("*/S", "*/%d", s)
	}
	for n := lo; n <= hi; n++ {
		for s := 1; s <= hi+1; s++ {
			add("N/S", "%d/%d", n, s)
		}
		for m := n; m <= hi; m++ {
			add("N-M", "%d-%d", n, m)
			for s := 1; s <= hi+1; s++ {
				add("N-M/S", "%d-%d/%d", n, m, s)
			}
		}
	}
	var names []string
	switch f {
	case 4:
		names = cronref.MonthNames
	case 5:
		names = cronref.DowNames
	}
	styles := []func(string) string{strings.ToUpper, strings.ToLower, title, func(s string) string {
		return strings.ToLower(s[:1]) + strings.ToUpper(s[1:2]) + strings.ToLower(s[2:])
	}}
	for i, a := range names {
		for _, v := range caseVariants(a) {
			add("NAME", "%s", v)
		}
		for s := 1; s <= hi+1; s++ {
			add("NAME/S", "%s/%d", a, s)
			add("NAME/S", "%s/%d", strings.ToLower(a), s)
		}
		for j := i; j < len(names); j++ {
			b := names[j]
			for _, st := range styles {
				add("NAME-NAME", "%s-%s", st(a), st(b))
			}
			add("NAME-NAME", "%s-%s", strings.ToLower(a), b)
			add("N-NAME", "%d-%s", lo+i, b)
			add("NAME-N", "%s-%d", title(a), lo+j)
			for s := 1; s <= hi+1; s++ {
				add("NAME-NAME/S", "%s-%s/%d", a, title(b), s)
			}
		}
	}
	return ts
}

// listMenu: the 12-term menu per field from which all lists of <= 2 terms are formed.
var listMenu = [6][]string{
	{"*", "0", "59", "7", "5-10", "0-59", "*/15", "*/7", "3/20", "10-50/13", "30", "58-59"},
	{"*", "0", "59", "7", "5-10", "0-59", "*/15", "*/7", "3/20", "10-50/13", "30", "58-59"},
	{"*", "0", "23", "7", "9-17", "0-23", "*/2", "*/5", "3/6", "1-22/7", "12", "22-23"},
	{"*", "?", "1", "31", "15", "1-7", "*/2", "2-30/2", "5/10", "10-20/3", "29-31", "1-31"},
	{"*", "1", "12", "JAN", "dec", "Mar-Oct", "*/3", "2/5", "FEB-NOV/4", "6-8", "1-12", "sep"},
	{"*", "?", "0", "6", "MON", "fri", "MON-FRI", "*/2", "1/3", "sun-sat/2", "1-5", "0-6"},
}

var prefixZones = []string{"UTC", "Asia/Tokyo", "America/New_York", "Europe/London", "Australia/Lord_Howe", "Asia/Kathmandu"}

func prefixes() []string {
	out := []string{""}
	for _, z := range prefixZones {
		out = append(out, "TZ="+z+" ", "CRON_TZ="+z+" ")
	}
	return out
}

// ---- findings, aggregated deterministically -----------------------------

type rcase struct {
	Config int    `json:"config"`
	Spec   string `json:"spec"`
}

type agg struct {
	mu sync.Mutex
	m  map[string]*aggEntry
}
type aggEntry struct {
	n   int64
	ex  rcase
	msg string
}

func (a *agg) add(key string, c rcase, msg string) {
	a.mu.Lock()
	defer a.mu.Unlock()
	e := a.m[key]
	if e == nil {
		e = &aggEntry{ex: c, msg: msg}
		a.m[key] = e
	} else if len(c.Spec) < len(e.ex.Spec) || (len(c.Spec) == len(e.ex.Spec) && (c.Spec < e.ex.Spec || (c.Spec == e.ex.Spec && c.Config < e.ex.Config))) {
		e.ex, e.msg = c, msg
	}
	e.n++
}

type job struct {
	sub        string // sub-space
	field      int    // -1 if not field specific
	form       string
	cfg        int
	spec       string
	dup        bool // structurally repeats a case of another sub-space
	mustRefuse bool
}

func key(j job, kind string) string {
	f := "any"
	if j.field >= 0 {
		f = fieldNames[j.field]
	}
	return fmt.Sprintf("parser;%s;field=%s;form=%s;%s", j.sub, f, j.form, kind)
}

func run(r *enumx.Run, replay *enumx.ReplayCase) {
	cfgs := configs()
	if replay != nil {
		var c rcase
		if err := json.Unmarshal(replay.Case, &c); err != nil {
			panic(err)
		}
		if strings.Contains(c.Spec, seqSep) {
			e := newSeqEnv()
			var its []seqItem
			for _, sp := range strings.Split(c.Spec, seqSep) {
				its = append(its, e.item(sp))
			}
			var third *seqItem
			if len(its) > 2 {
				third = &its[2]
			}
			done := false
			e.eval(&its[0], &its[1], third, func(kind, msg string, seq []string) {
				if !done {
					done = true
					r.Violation(replay.Key, msg, c)
				}
			})
			return
		}
		o := compare(cfgs[c.Config], c.Spec)
		if !o.ok {
			r.Violation(replay.Key, o.msg, c)
		}
		return
	}
	r.Rule("parser: each case is one (parser option set, expression) pair, parsed by kit and by the reference written from doc.go; compared: the six value sets, the day-field star flags, the location, the @every delay, or that an error is returned for a refusal class. Sub-spaces: every single term of the documented grammar per field over the full numeric range (other fields once all-'*' and once distinct constants, optional field present and omitted), all lists of <=2 terms from a 12-term menu per field x TZ=/CRON_TZ= prefixes, a 3-terms-per-field cross product, all descriptors, and one generator per refusal class. Every case is a distinct input except those counted only in 'evaluations' (lists of one term repeat the single-term sub-space).")
	ag := &agg{m: map[string]*aggEntry{}}
	var excluded, starUnspecified int64
	var mu sync.Mutex
	perSub := map[string]int64{}

	evalSeq := func(jobs []job) {
		var n, nt, ex int64
		local := map[string]int64{}
		for _, j := range jobs {
			o := compare(cfgs[j.cfg], j.spec)
			if o.skip {
				if j.mustRefuse {
					panic(fmt.Sprintf("generator/reference disagreement: %q (%s) is a %s generator but the reference calls it undefined", j.spec, cfgs[j.cfg].Name, j.form))
				}
				ex++
				continue
			}
			if j.mustRefuse {
				if v := cronref.Parse(j.spec, cfgs[j.cfg].Lay).Verdict; v != cronref.Refuse {
					panic(fmt.Sprintf("generator/reference disagreement: %q (%s) is a %s generator but the reference says %v", j.spec, cfgs[j.cfg].Name, j.form, v))
				}
			}
			n++
			if !j.dup {
				nt++
			}
			local[j.sub]++
			if !o.ok {
				ag.add(key(j, o.kind), rcase{j.cfg, j.spec}, o.msg)
			}
		}
		r.Count(n, nt)
		mu.Lock()
		excluded += ex
		for k, v := range local {
			perSub[k] += v
		}
		mu.Unlock()
	}
	evalJobs := func(jobs []job) bool {
		chunks := (len(jobs) + 4095) / 4096
		done := r.Parallel(chunks, func(ch int) {
			hi := (ch + 1) * 4096
			if hi > len(jobs) {
				hi = len(jobs)
			}
			evalSeq(jobs[ch*4096 : hi])
		})
		return done == chunks
	}

	// 1. single terms
	for f := 0; f < 6; f++ {
		ts := validTerms(f)
		chunks := (len(ts) + 511) / 512
		done := r.Parallel(chunks, func(ch int) {
			var jobs []job
			for i := ch * 512; i < len(ts) && i < (ch+1)*512; i++ {
				t := ts[i]
				for ci, c := range cfgs {
					if c.Lay.Descriptors || c.Both {
						continue // the descriptor flag does not touch field expressions; covered in the list sub-space (so are the field|Optional option sets)
					}
					p, opt := c.present()
					if !p[f] {
						continue
					}
					for _, base := range [][6]string{baseStars, baseDistinct} {
						tok := base
						tok[f] = t.Text
						jobs = append(jobs, job{sub: "term", field: f, form: t.Form, cfg: ci, spec: c.assemble(tok, false)})
						if opt >= 0 && opt != f {
							jobs = append(jobs, job{sub: "term", field: f, form: t.Form, cfg: ci, spec: c.assemble(tok, true)})
						}
					}
				}
			}
			evalSeq(jobs)
		})
		if done < chunks {
			r.Incomplete("single terms of field " + fieldNames[f] + " and everything after")
			return
		}
		r.Space(fmt.Sprintf("every single term of field %s (%d terms) x option sets x {all-star, distinct-constant} context x optional field present/omitted", fieldNames[f], len(ts)))
	}

	// 2. lists of <= 2 terms x all configs x prefixes
	{
		var jobs []job
		pf := prefixes()
		for f := 0; f < 6; f++ {
			menu := listMenu[f]
			var lists []string
			for _, a := range menu {
				lists = append(lists, a)
			}
			for _, a := range menu {
				for _, b := range menu {
					lists = append(lists, a+","+b)
				}
			}
			for li, l := range lists {
				for ci, c := range cfgs {
					p, opt := c.present()
					if !p[f] {
						continue
					}
					for _, base := range [][6]string{baseStars, baseDistinct} {
						tok := base
						tok[f] = l
						for _, pre := range pf {
							jobs = append(jobs, job{sub: "list", field: f, form: "list", cfg: ci, spec: pre + c.assemble(tok, false), dup: li < len(menu) && pre == "" && !c.Lay.Descriptors})
							if opt >= 0 && opt != f {
								jobs = append(jobs, job{sub: "list", field: f, form: "list", cfg: ci, spec: pre + c.assemble(tok, true), dup: li < len(menu) && pre == "" && !c.Lay.Descriptors})
							}
						}
					}
				}
			}
		}
		evalJobs(jobs)
		r.Space(fmt.Sprintf("all lists of 1 and 2 terms from the 12-term menu of each field x %d option sets x %d prefixes (none, TZ=, CRON_TZ= over %d zones)", len(cfgs), len(pf), len(prefixZones)))
	}

	// 3. cross product: three terms per field, all fields at once
	{
		menu := [6][]string{{"*", "11", "*/20"}, {"*", "22", "5-55/10"}, {"*", "13", "*/6"}, {"*", "24", "*/10"}, {"*", "5", "FEB-DEC/3"}, {"*", "6", "MON-FRI"}}
		var jobs []job
		for ci, c := range cfgs {
			if c.Lay.Descriptors {
				continue
			}
			_, opt := c.present()
			for i := 0; i < 729; i++ {
				var tok [6]string
				x := i
				for f := 0; f < 6; f++ {
					tok[f] = menu[f][x%3]
					x /= 3
				}
				jobs = append(jobs, job{sub: "cross", field: -1, form: "cross", cfg: ci, spec: c.assemble(tok, false), dup: true})
				if opt >= 0 {
					jobs = append(jobs, job{sub: "cross", field: -1, form: "cross", cfg: ci, spec: c.assemble(tok, true), dup: true})
				}
			}
		}
		evalJobs(jobs)
		r.Space("3 terms per field, full product over the six fields x option sets (field positions are independent)")
	}

	// 4. descriptors
	{
		descs := []string{"@yearly", "@annually", "@monthly", "@weekly", "@daily", "@midnight", "@hourly"}
		for _, d := range []string{"1s", "2s", "59s", "1m", "90m", "1h", "1h30m", "1h30m10s", "24h", "8760h", "1.5s", "2h45m30.9s", "1m0.999999999s", "999ms", "500ms", "1ms", "1us", "1ns", "0s", "0", "-5s", "-1h", "1000000h", "1h1m1s1ms1us1ns"} {
			descs = append(descs, "@every "+d)
		}
		var jobs []job
		for ci := range cfgs {
			for _, d := range descs {
				for _, pre := range prefixes() {
					form := d
					if strings.HasPrefix(d, "@every") {
						form = "@every"
					}
					jobs = append(jobs, job{sub: "descriptor", field: -1, form: form, cfg: ci, spec: pre + d, mustRefuse: !cfgs[ci].Lay.Descriptors})
				}
			}
		}
		evalJobs(jobs)
		r.Space(fmt.Sprintf("all %d descriptors (7 predefined, %d @every durations) x option sets (descriptors on: meaning; off: must be refused) x prefixes", len(descs), len(descs)-7))
	}

	// 5. refusal classes
	{
		jobs := refusalJobs(cfgs)
		classes := map[string]int{}
		for _, j := range jobs {
			classes[j.form]++
		}
		evalJobs(jobs)
		var cl []string
		for k, v := range classes {
			cl = append(cl, fmt.Sprintf("%s=%d", k, v))
		}
		sort.Strings(cl)
		r.Set("refusal_generators", cl)
		r.Space("refusal classes: wrong field count (min-2..max+2), value below minimum / above maximum, inverted range, zero step, non-numeric, unknown name, unknown descriptor, unknown zone - each must return an error")
	}

	// 4b. star-like list items before an invalid item
	{
		jobs := starListJobs(cfgs)
		evalJobs(jobs)
		r.Space(fmt.Sprintf("lists whose first / middle items are star-like (*, ?, */1, */2, the full range) followed by each invalid item kind (above max, below min, non-numeric, unknown name, inverted range, zero step, empty item) in every field and position (S,BAD  S,BAD,v  v,S,BAD  S,S',BAD  BAD,S): %d cases, verdict from the reference grammar", len(jobs)))
	}

	// 4c. option sets x Next: the parsed schedule answers Next as the reference does
	{
		n := optionSetNext(r, ag, cfgs)
		r.Space(fmt.Sprintf("every option set (incl. a field bit together with its own Optional bit) x 3-terms-per-field cross product, optional field present and omitted: Next at 2 instants (UTC) equals the reference's: %d cases", n))
	}

	// 5a. spelled-out full sets: the whole range written without '*' / '?'
	{
		jobs := fullSetJobs(cfgs)
		evalJobs(jobs)
		r.Space(fmt.Sprintf("spelled-out full sets: for every field the whole range written as lo-hi, lo-hi/1, lo/1, the full list, two abutting / overlapping ranges, a range plus a value, name ranges and name lists (month, dow) and */1 - alone in its field, and in the dom/dow pair against every partner of {*, ?, single value, list, range, */2, every spelling of the partner's full set}; a field without '*' / '?' is restricted whatever its value set (either-day rule), '*/1' alone is not judged (the unchanged code treats it as '*'): %d cases", len(jobs)))
	}

	// 5b. names, garbage and digits in every syntactic position of every field,
	// of descriptors and of the zone prefix; the reference grammar decides (names
	// are legal only as single values / range ends of the month and dow fields)
	{
		jobs := positionJobs(cfgs)
		evalJobs(jobs)
		r.Space(fmt.Sprintf("names (jan..dec, sun..sat in three case styles), 3-letter garbage and digits in every syntactic position (value, range start/end, step, step of a range, list item, step inside a list item) of every field, as descriptor, as @every argument, after a descriptor and as zone name: %d cases, verdict taken from the reference grammar", len(jobs)))
	}

	// 5c. parse sequences: a later Parse must not change an earlier result
	{
		n := sequences(r, ag)
		r.Space(fmt.Sprintf("parse sequences: every ordered pair (A, B) and every triple (A, B, A') with A' sharing A's body, over an alphabet of %d expressions (7 descriptors x {no prefix, TZ=/CRON_TZ= over 3 zones}, 3 ordinary expressions x 3 prefixes, 2 @every): after each later Parse the first schedule still has the documented field sets and location, is a distinct object, and answers Next at 3 instants as before and as the reference does: %d sequences", len(seqAlphabet()), n))
	}

	// 6. forms the implementation accepts but the documentation does not define:
	// fed for the record only, never judged.
	{
		std := cfgs[0]
		var rec []string
		for _, s := range []string{"*-5 * * * *", "?-5 * * * *", "1,,2 * * * *", ",1 * * * *", "1, * * * *", ", * * * *", "+5 * * * *", "? * * * *", "* ? * * *", "* * ?/2 * *", "* * * ? *", "1-2-3 * * * *", "1/2/3 * * * *", "*\t*\t*\t*\t*", "*/+2 * * * *", "TZ= * * * * *", "* * */1 * 1", "* * 1-31 * 1", "* * * * 0-6"} {
			refv := cronref.Parse(s, std.Lay)
			sched, err := func() (s2 cron.Schedule, e error) {
				defer func() {
					if p := recover(); p != nil {
						e = fmt.Errorf("panic: %v", p)
					}
				}()
				return cron.NewParser(std.Opt).Parse(s)
			}()
			if err != nil {
				rec = append(rec, fmt.Sprintf("%q -> kit refuses; reference: %v %s", s, refv.Verdict, refv.Why))
			} else {
				ss := sched.(*cron.SpecSchedule)
				rec = append(rec, fmt.Sprintf("%q -> kit accepts as %s domStar=%v dowStar=%v; reference: %v %s", s, describe(sched), ss.Dom>>63 == 1, ss.Dow>>63 == 1, refv.Verdict, refv.Why))
			}
		}
		r.Set("undocumented_forms_not_judged", rec)
	}

	// star flags left unjudged (whole range without a bare star)
	for _, f := range []int{3, 5} {
		for _, t := range validTerms(f) {
			tok := baseStars
			tok[f] = t.Text
			if res := cronref.Parse(cfgs[0].assemble(tok, false), cfgs[0].Lay); res.Verdict == cronref.Accept {
				if (f == 3 && res.Sched.DomStar == cronref.Unspecified) || (f == 5 && res.Sched.DowStar == cronref.Unspecified) {
					starUnspecified++
				}
			}
		}
	}
	r.Set("single_terms_whose_star_flag_is_not_judged", starUnspecified)
	r.Set("cases_outside_documented_grammar_skipped", excluded)
	r.Set("cases_per_subspace", perSub)
	r.Sample(map[string]any{"config": "seconds", "spec": "11 22 13 10-20/3 5 6", "reference": "dom{10,13,16,19} restricted"})
	r.Sample(map[string]any{"config": "optional-dow", "spec": "TZ=Asia/Tokyo 22 13 24 Mar-Oct", "reference": "month{3-10}, dow defaulted to * (unrestricted), location Asia/Tokyo"})
	r.Sample(map[string]any{"config": "standard", "spec": "* * * * 3-1", "reference": "refuse: inverted range"})

	keys := make([]string, 0, len(ag.m))
	for k := range ag.m {
		keys = append(keys, k)
	}
	sort.Strings(keys)
	for _, k := range keys {
		e := ag.m[k]
		r.Violation(k, fmt.Sprintf("%s  [%d cases with this key; shortest shown]", e.msg, e.n), e.ex)
	}
}

// ---- refusal generators ----------------------------------------------------

func refusalJobs(cfgs []config) []job {
	var jobs []job
	inField := func(class string, f int, text string) {
		for ci, c := range cfgs {
			if c.Lay.Descriptors {
				continue
			}
			p, _ := c.present()
			if !p[f] {
				continue
			}
			for _, base := range [][6]string{baseStars, baseDistinct} {
				tok := base
				tok[f] = text
				jobs = append(jobs, job{sub: "refusal", field: f, form: class, cfg: ci, spec: c.assemble(tok, false), mustRefuse: true})
			}
		}
	}
	// wrong field count
	for ci, c := range cfgs {
		p, opt := c.present()
		max := 0
		for _, b := range p {
			if b {
				max++
			}
		}
		min := max
		if opt >= 0 {
			min--
		}
		for _, k := range []int{min - 2, min - 1, max + 1, max + 2} {
			if k < 0 {
				continue
			}
			for _, fill := range []string{"*", "1"} {
				spec := strings.TrimSpace(strings.Repeat(fill+" ", k))
				jobs = append(jobs, job{sub: "refusal", field: -1, form: "field-count", cfg: ci, spec: spec, mustRefuse: true})
				if k > 0 {
					jobs = append(jobs, job{sub: "refusal", field: -1, form: "field-count", cfg: ci, spec: "CRON_TZ=UTC " + spec, mustRefuse: true})
				}
			}
		}
	}
	for f := 0; f < 6; f++ {
		lo, hi := cronref.Range(f)
		// above the maximum
		for _, v := range []string{fmt.Sprint(hi + 1), fmt.Sprint(hi + 2), "60", "61", "99", "100", "255", "256", "1000", "65536", "4294967296", "18446744073709551616"} {
			inField("above-max", f, v)
			inField("above-max", f, fmt.Sprintf("%d-%s", lo, v))
			inField("above-max", f, fmt.Sprintf("%s-%s", v, v))
			inField("above-max", f, fmt.Sprintf("%s/2", v))
			inField("above-max", f, fmt.Sprintf("%d-%s/2", lo, v))
			inField("above-max", f, fmt.Sprintf("%d,%s", lo, v))
		}
		// below the minimum
		if lo > 0 {
			b := fmt.Sprint(lo - 1)
			for _, t := range []string{b, "0" + b, b + "-" + fmt.Sprint(hi), b + "-" + b, b + "/2", b + "-5/2", fmt.Sprintf("%d,%s", lo, b)} {
				inField("below-min", f, t)
			}
		} else {
			inField("below-min", f, "-1")
			inField("below-min", f, "-1/2")
			inField("below-min", f, "0,-1")
		}
		// inverted ranges: every pair
		for n := lo; n <= hi; n++ {
			for m := lo; m < n; m++ {
				inField("inverted-range", f, fmt.Sprintf("%d-%d", n, m))
				inField("inverted-range", f, fmt.Sprintf("%d-%d/2", n, m))
			}
		}
		// zero steps
		inField("zero-step", f, "*/0")
		inField("zero-step", f, "*/00")
		for n := lo; n <= hi; n++ {
			inField("zero-step", f, fmt.Sprintf("%d/0", n))
			for m := n; m <= hi; m++ {
				inField("zero-step", f, fmt.Sprintf("%d-%d/0", n, m))
			}
		}
		// non-numeric
		for _, t := range []string{"x", "1x", "x1", "1.5", "1e1", "0x10", "١", "a-b", "1-x", "x-5", "*/x", "1/x", "1-5/x", "1-", "/5", "*/", "1/", "-", "#", "L", "1#2", "5L", "W", "15W"} {
			inField("non-numeric", f, t)
		}
		// unknown names
		unk := []string{"FOO", "JANUARY", "MONDAY", "MO", "JA", "JANU", "SUNN", "FOO-BAR", "FOO/2"}
		switch f {
		case 4:
			unk = append(unk, cronref.DowNames...)
			unk = append(unk, "JAN-FOO", "FOO-DEC", "JAN-MON")
		case 5:
			unk = append(unk, cronref.MonthNames...)
			unk = append(unk, "MON-FOO", "FOO-SAT", "MON-DEC")
		default:
			unk = append(unk, cronref.MonthNames...)
			unk = append(unk, cronref.DowNames...)
			unk = append(unk, "jan", "mon", "JAN-MAR", "MON-FRI")
		}
		for _, t := range unk {
			inField("unknown-name", f, t)
		}
	}
	// the inverted name ranges
	for i, a := range cronref.MonthNames {
		for j := 0; j < i; j++ {
			inField("inverted-range", 4, a+"-"+cronref.MonthNames[j])
		}
	}
	for i, a := range cronref.DowNames {
		for j := 0; j < i; j++ {
			inField("inverted-range", 5, a+"-"+cronref.DowNames[j])
		}
	}
	// unknown descriptors (descriptor-enabled configs), and every @-spec when disabled
	for ci := range cfgs {
		for _, d := range []string{"@foo", "@year", "@yearlyy", "@", "@every", "@every ", "@every x", "@every 5", "@every 1h xyz", "@ daily", "@reboot", "@secondly", "@minutely", "@every 1d", "@every five minutes"} {
			jobs = append(jobs, job{sub: "refusal", field: -1, form: "unknown-descriptor", cfg: ci, spec: d, mustRefuse: true})
			jobs = append(jobs, job{sub: "refusal", field: -1, form: "unknown-descriptor", cfg: ci, spec: "TZ=UTC " + d, mustRefuse: true})
		}
	}
	// unknown zones
	for ci, c := range cfgs {
		for _, z := range []string{"Nowhere/Land", "Mars/Phobos", "America/New_Yorkk", "X"} {
			for _, p := range []string{"TZ=", "CRON_TZ="} {
				jobs = append(jobs, job{sub: "refusal", field: -1, form: "unknown-zone", cfg: ci, spec: p + z + " " + c.assemble(baseStars, false), mustRefuse: true})
				if c.Lay.Descriptors {
					jobs = append(jobs, job{sub: "refusal", field: -1, form: "unknown-zone", cfg: ci, spec: p + z + " @daily", mustRefuse: true})
				}
			}
		}
	}
	return jobs
}

// ---- names / digits in every position ---------------------------------------------

func positionJobs(cfgs []config) []job {
	var jobs []job
	var vals []string
	for _, n := range append(append([]string{}, cronref.MonthNames...), cronref.DowNames...) {
		vals = append(vals, n, strings.ToLower(n), title(n))
	}
	vals = append(vals, "abc", "xyz", "ja", "janu", "j4n", "0", "1", "7", "12")
	for f := 0; f < 6; f++ {
		lo, hi := cronref.Range(f)
		for _, x := range vals {
			forms := [][2]string{
				{"X", x}, {"X-X", x + "-" + x}, {"lo-X", fmt.Sprintf("%d-%s", lo, x)}, {"X-hi", fmt.Sprintf("%s-%d", x, hi)},
				{"*/X", "*/" + x}, {"lo/X", fmt.Sprintf("%d/%s", lo, x)}, {"X/2", x + "/2"}, {"X/X", x + "/" + x},
				{"lo-hi/X", fmt.Sprintf("%d-%d/%s", lo, hi, x)}, {"X-X/X", x + "-" + x + "/" + x},
				{"lo,X", fmt.Sprintf("%d,%s", lo, x)}, {"X,lo", fmt.Sprintf("%s,%d", x, lo)}, {"lo,*/X", fmt.Sprintf("%d,*/%s", lo, x)}, {"lo,lo-X", fmt.Sprintf("%d,%d-%s", lo, lo, x)},
			}
			for _, fm := range forms {
				for ci, c := range cfgs {
					if c.Lay.Descriptors {
						continue
					}
					p, _ := c.present()
					if !p[f] {
						continue
					}
					for _, base := range [][6]string{baseStars, baseDistinct} {
						tok := base
						tok[f] = fm[1]
						jobs = append(jobs, job{sub: "position", field: f, form: fm[0], cfg: ci, spec: c.assemble(tok, false)})
					}
				}
			}
		}
	}
	for ci, c := range cfgs {
		for _, x := range vals {
			for _, d := range []string{"@" + x, "@every " + x, "@daily " + x, "@" + x + " daily", "@every 1h" + x, "@hourly/" + x} {
				jobs = append(jobs, job{sub: "position", field: -1, form: "descriptor", cfg: ci, spec: d})
			}
			jobs = append(jobs, job{sub: "position", field: -1, form: "zone", cfg: ci, spec: "TZ=" + x + " " + c.assemble(baseStars, false)})
			jobs = append(jobs, job{sub: "position", field: -1, form: "zone", cfg: ci, spec: "CRON_TZ=" + x + " " + c.assemble(baseDistinct, false)})
		}
	}
	return jobs
}

// ---- parse sequences -----------------------------------------------------------------

type seqItem struct {
	spec string
	body string // the expression without the zone prefix
	ref  cronref.Schedule
	next [3]time.Time // the reference's Next at seqInstants
}

var seqZones = []string{"Asia/Tokyo", "Asia/Kolkata", "America/New_York"}

func seqAlphabet() []string {
	var out []string
	pre := []string{""}
	for _, z := range seqZones {
		pre = append(pre, "TZ="+z+" ", "CRON_TZ="+z+" ")
	}
	for _, d := range []string{"@yearly", "@annually", "@monthly", "@weekly", "@daily", "@midnight", "@hourly"} {
		for _, p := range pre {
			out = append(out, p+d)
		}
	}
	for _, b := range []string{"0 0 * * *", "*/15 9-17 * * MON-FRI", "30 4 1 1 *"} {
		for _, p := range []string{"", "TZ=Asia/Tokyo ", "CRON_TZ=Asia/Kolkata "} {
			out = append(out, p+b)
		}
	}
	return append(out, "@every 1h", "@every 90s")
}

var seqInstants = [3]time.Time{
	time.Date(2021, 3, 14, 6, 59, 30, 0, time.UTC),
	time.Date(2024, 2, 29, 12, 0, 0, 0, time.UTC),
	time.Date(2019, 12, 31, 23, 59, 59, 500000000, time.UTC),
}

// seqEnv: what evaluating sequences needs.
type seqEnv struct {
	cfg    config
	zones  map[string]*cronref.Zone
	parser cron.Parser
}

func newSeqEnv() *seqEnv {
	cfg := configs()[1] // standard + descriptors
	if cfg.Name != "standard+descriptors" {
		panic(cfg.Name)
	}
	from, to := time.Date(2004, 12, 1, 0, 0, 0, 0, time.UTC).Unix(), time.Date(2037, 2, 1, 0, 0, 0, 0, time.UTC).Unix()
	zones := map[string]*cronref.Zone{}
	for _, n := range append([]string{"UTC"}, seqZones...) {
		loc, err := time.LoadLocation(n)
		if err != nil {
			panic(err)
		}
		z, err := cronref.ScanZone(n, loc, from, to, true)
		if err != nil {
			panic(err)
		}
		zones[n] = z
	}
	return &seqEnv{cfg: cfg, zones: zones, parser: cron.NewParser(cfg.Opt)}
}

func (e *seqEnv) item(sp string) seqItem {
	res := cronref.Parse(sp, e.cfg.Lay)
	if res.Verdict != cronref.Accept || res.Sched.DomStar == cronref.Unspecified || res.Sched.DowStar == cronref.Unspecified {
		panic("sequence alphabet: " + sp)
	}
	it := seqItem{spec: sp, body: sp, ref: res.Sched}
	if i := strings.Index(sp, " "); i > 0 && strings.Contains(sp[:i], "=") {
		it.body = sp[i+1:]
	}
	if strings.HasPrefix(it.body, "@every") {
		it.body = "@every"
	} else if !strings.HasPrefix(it.body, "@") {
		it.body = "fields"
	}
	for k, t := range seqInstants {
		if res.Sched.IsEvery {
			it.next[k] = cronref.EveryNext(res.Sched.Every, t)
			continue
		}
		zn := res.Sched.Zone
		if zn == "" {
			zn = "UTC" // no zone: interpreted in the location of t, and t is given in UTC
		}
		sch := res.Sched
		sc := cronref.Scanner{Z: e.zones[zn], S: &sch, Fast: true}
		a := sc.Next(t)
		if !a.Found {
			panic("sequence alphabet: no next for " + sp)
		}
		it.next[k] = time.Unix(a.Unix, 0)
	}
	return it
}

// check: the schedule obtained for it still means what it should.
func (e *seqEnv) check(sched cron.Schedule, it *seqItem, when string, seq []string) (string, string) {
	if o := matchSched(sched, it.ref, it.spec, e.cfg.Name); !o.ok {
		return "fields-" + o.kind, fmt.Sprintf("sequence %q: the schedule returned for %q %s: %s", seq, it.spec, when, o.msg)
	}
	for k, t := range seqInstants {
		if got := sched.Next(t); !got.Equal(it.next[k]) {
			return "next", fmt.Sprintf("sequence %q: the schedule returned for %q %s answers Next(%s) = %s, documented %s", seq, it.spec, when, t.Format(time.RFC3339Nano), got.Format(time.RFC3339), it.next[k].UTC().Format(time.RFC3339))
		}
	}
	return "", ""
}

// eval runs Parse(A), Parse(B)[, Parse(C)] and reports every departure.
func (e *seqEnv) eval(A, B, C *seqItem, report func(kind, msg string, seq []string)) {
	seq := []string{A.spec, B.spec}
	if C != nil {
		seq = append(seq, C.spec)
	}
	aliased := func(a, b cron.Schedule) bool {
		pa, oka := a.(*cron.SpecSchedule)
		pb, okb := b.(*cron.SpecSchedule)
		return oka && okb && pa == pb
	}
	sA, err := e.parser.Parse(A.spec)
	if err != nil {
		report("rejected", fmt.Sprintf("sequence %q: Parse(%q): %v", seq, A.spec, err), seq)
		return
	}
	if k, m := e.check(sA, A, "right after its own Parse", seq); k != "" {
		report("first-"+k, m, seq)
		return
	}
	sB, err := e.parser.Parse(B.spec)
	if err != nil {
		report("rejected", fmt.Sprintf("sequence %q: Parse(%q): %v", seq, B.spec, err), seq)
		return
	}
	if aliased(sA, sB) {
		report("aliased", fmt.Sprintf("sequence %q: two separate Parse calls returned the same *SpecSchedule object", seq), seq)
	}
	if k, m := e.check(sA, A, fmt.Sprintf("was changed by the later Parse(%q)", B.spec), seq); k != "" {
		report("changed-"+k, m, seq)
	}
	if k, m := e.check(sB, B, "right after its own Parse", seq); k != "" {
		report("later-"+k, m, seq)
	}
	if C == nil {
		return
	}
	sC, err := e.parser.Parse(C.spec)
	if err != nil {
		report("rejected", fmt.Sprintf("sequence %q: Parse(%q): %v", seq, C.spec, err), seq)
		return
	}
	if aliased(sA, sC) || aliased(sB, sC) {
		report("aliased", fmt.Sprintf("sequence %q: two separate Parse calls returned the same *SpecSchedule object", seq), seq)
	}
	if k, m := e.check(sA, A, fmt.Sprintf("was changed by the later Parse(%q)", C.spec), seq); k != "" {
		report("changed-"+k, m, seq)
	}
	if k, m := e.check(sB, B, fmt.Sprintf("was changed by the later Parse(%q)", C.spec), seq); k != "" {
		report("changed-"+k, m, seq)
	}
	if k, m := e.check(sC, C, "right after its own Parse", seq); k != "" {
		report("later-"+k, m, seq)
	}
}

const seqSep = " ; "

func sequences(r *enumx.Run, ag *agg) int {
	e := newSeqEnv()
	var items []seqItem
	for _, sp := range seqAlphabet() {
		items = append(items, e.item(sp))
	}
	var total atomic.Int64
	// sequentially: the sub-space is about hidden shared state, so no two
	// sequences may run at the same time (and the findings stay deterministic)
	for ai := range items {
		A := &items[ai]
		var n int64
		report := func(kind, msg string, seq []string) {
			ag.add(fmt.Sprintf("parser;sequence;field=any;form=%s;%s", A.body, kind), rcase{Config: 1, Spec: strings.Join(seq, seqSep)}, msg)
		}
		for bi := range items {
			n++
			e.eval(A, &items[bi], nil, report)
			for ci := range items {
				if items[ci].body == A.body {
					n++
					e.eval(A, &items[bi], &items[ci], report)
				}
			}
		}
		r.Count(n, n)
		total.Add(n)
	}
	return int(total.Load())
}

// ---- spelled-out full sets -----------------------------------------------------------

type spelling struct{ shape, text string }

// fullSpellings: ways of writing the whole range of field f without '*' / '?',
// plus "*/1" (whose star flag the reference leaves open).
func fullSpellings(f int) []spelling {
	lo, hi := cronref.Range(f)
	mid := (lo + hi) / 2
	var list []string
	for v := lo; v <= hi; v++ {
		list = append(list, fmt.Sprint(v))
	}
	out := []spelling{
		{"lo-hi", fmt.Sprintf("%d-%d", lo, hi)},
		{"lo-hi/1", fmt.Sprintf("%d-%d/1", lo, hi)},
		{"lo/1", fmt.Sprintf("%d/1", lo)},
		{"list", strings.Join(list, ",")},
		{"abutting", fmt.Sprintf("%d-%d,%d-%d", lo, mid, mid+1, hi)},
		{"abutting-reversed", fmt.Sprintf("%d-%d,%d-%d", mid+1, hi, lo, mid)},
		{"overlapping", fmt.Sprintf("%d-%d,%d-%d", lo, mid+1, mid, hi)},
		{"range+value", fmt.Sprintf("%d,%d-%d", lo, lo+1, hi)},
		{"range+inner", fmt.Sprintf("%d-%d,%d", lo, hi, mid)},
		{"steps", fmt.Sprintf("%d-%d/2,%d-%d/2", lo, hi, lo+1, hi)},
		{"*/1", "*/1"},
		{"*/1+value", fmt.Sprintf("*/1,%d", mid)},
		{"*/2+rest", fmt.Sprintf("*/2,%d-%d/2", lo+1, hi)},
	}
	var names []string
	switch f {
	case 4:
		names = cronref.MonthNames
	case 5:
		names = cronref.DowNames
	}
	if names != nil {
		first, last := names[0], names[len(names)-1]
		var lower []string
		for _, n := range names {
			lower = append(lower, strings.ToLower(n))
		}
		out = append(out,
			spelling{"NAME-NAME", first + "-" + last},
			spelling{"NAME-NAME", strings.ToLower(first) + "-" + strings.ToLower(last)},
			spelling{"NAME-NAME", title(first) + "-" + title(last)},
			spelling{"NAME-NAME/1", first + "-" + last + "/1"},
			spelling{"NAME/1", first + "/1"},
			spelling{"name-list", strings.Join(names, ",")},
			spelling{"name-list", strings.Join(lower, ",")},
			spelling{"N-NAME", fmt.Sprintf("%d-%s", lo, last)},
			spelling{"NAME-N", fmt.Sprintf("%s-%d", first, hi)},
		)
	}
	return out
}

func fullSetJobs(cfgs []config) []job {
	var jobs []job
	partners := map[int][]string{
		3: {"*", "?", "13", "1,15", "28-31", "*/2", "2-30/2", "1"},
		5: {"*", "?", "5", "0,6", "MON-FRI", "*/2", "1/2", "fri"},
	}
	for f := 0; f < 6; f++ {
		for _, sp := range fullSpellings(f) {
			for ci, c := range cfgs {
				p, opt := c.present()
				if !p[f] {
					continue
				}
				emit := func(tok [6]string) {
					jobs = append(jobs, job{sub: "fullset", field: f, form: sp.shape, cfg: ci, spec: c.assemble(tok, false)})
					if opt >= 0 && opt != f {
						jobs = append(jobs, job{sub: "fullset", field: f, form: sp.shape, cfg: ci, spec: c.assemble(tok, true)})
					}
				}
				for _, base := range [][6]string{baseStars, baseDistinct} {
					tok := base
					tok[f] = sp.text
					emit(tok)
				}
				// the day pair: this spelling against every kind of partner
				if f == 3 || f == 5 {
					g := 8 - f // the other day field
					if !p[g] {
						continue
					}
					ps := append([]string{}, partners[g]...)
					for _, q := range fullSpellings(g) {
						ps = append(ps, q.text)
					}
					for _, q := range ps {
						tok := baseDistinct
						tok[f], tok[g] = sp.text, q
						emit(tok)
					}
				}
			}
		}
	}
	return jobs
}

// ---- star-like list items before an invalid one ------------------------------------------

func starListJobs(cfgs []config) []job {
	var jobs []job
	for f := 0; f < 6; f++ {
		lo, hi := cronref.Range(f)
		stars := []string{"*", "?", "*/1", "*/2", fmt.Sprintf("%d-%d", lo, hi)}
		bad := [][2]string{
			{"above-max", fmt.Sprint(hi + 1)}, {"above-max", fmt.Sprintf("%d-%d", lo, hi+1)}, {"above-max", "99"},
			{"non-numeric", "x"}, {"non-numeric", "1x"}, {"non-numeric", "5/x"}, {"non-numeric", "*/x"},
			{"unknown-name", "foo"}, {"unknown-name", "foo-bar"},
			{"inverted-range", fmt.Sprintf("%d-%d", hi, lo)}, {"inverted-range", fmt.Sprintf("%d-%d", lo+2, lo+1)},
			{"zero-step", fmt.Sprintf("%d/0", lo)}, {"zero-step", "*/0"}, {"zero-step", fmt.Sprintf("%d-%d/0", lo, hi)},
			{"empty-item", ""},
		}
		if lo > 0 {
			bad = append(bad, [2]string{"below-min", fmt.Sprint(lo - 1)})
		} else {
			bad = append(bad, [2]string{"below-min", "-1"})
		}
		for _, st := range stars {
			for _, b := range bad {
				lists := []string{st + "," + b[1], st + "," + b[1] + "," + fmt.Sprint(lo), fmt.Sprint(lo) + "," + st + "," + b[1], st + ",*/1," + b[1], st + "," + fmt.Sprint(hi) + "," + b[1], b[1] + "," + st}
				for _, l := range lists {
					for ci, c := range cfgs {
						if c.Lay.Descriptors {
							continue
						}
						p, _ := c.present()
						if !p[f] {
							continue
						}
						for _, base := range [][6]string{baseStars, baseDistinct} {
							tok := base
							tok[f] = l
							jobs = append(jobs, job{sub: "starlist", field: f, form: b[0], cfg: ci, spec: c.assemble(tok, false)})
						}
					}
				}
			}
		}
	}
	return jobs
}

// ---- option sets x Next ------------------------------------------------------------------

func optionSetNext(r *enumx.Run, ag *agg, cfgs []config) int {
	from, to := time.Date(2004, 12, 1, 0, 0, 0, 0, time.UTC).Unix(), time.Date(2037, 2, 1, 0, 0, 0, 0, time.UTC).Unix()
	utc, err := cronref.ScanZone("UTC", time.UTC, from, to, false)
	if err != nil {
		panic(err)
	}
	menu := [6][]string{{"*", "11", "*/20"}, {"*", "22", "5-55/10"}, {"*", "13", "*/6"}, {"*", "24", "*/10"}, {"*", "5", "FEB-DEC/3"}, {"*", "6", "MON-FRI"}}
	instants := []time.Time{time.Date(2021, 3, 14, 6, 59, 30, 0, time.UTC), time.Date(2024, 2, 29, 12, 0, 0, 500000000, time.UTC)}
	var total atomic.Int64
	r.Parallel(len(cfgs), func(ci int) {
		c := cfgs[ci]
		_, opt := c.present()
		parser := cron.NewParser(c.Opt)
		var n int64
		for i := 0; i < 729; i++ {
			var tok [6]string
			x := i
			for f := 0; f < 6; f++ {
				tok[f] = menu[f][x%3]
				x /= 3
			}
			for _, omit := range []bool{false, true} {
				if omit && opt < 0 {
					continue
				}
				spec := c.assemble(tok, omit)
				ref := cronref.Parse(spec, c.Lay)
				if ref.Verdict != cronref.Accept {
					panic("option-set cross product: " + spec)
				}
				sched, err := parser.Parse(spec)
				if err != nil {
					continue // reported by the cross sub-space
				}
				for _, t := range instants {
					n++
					sch := ref.Sched
					sc := cronref.Scanner{Z: utc, S: &sch, Fast: true}
					a := sc.Next(t)
					got := sched.Next(t)
					if !a.Found || !got.Equal(time.Unix(a.Unix, 0)) {
						ag.add("parser;optionset-next;field=any;form="+c.Name+";next", rcase{ci, spec}, fmt.Sprintf("Parse(%q) with %s: Next(%s) = %s, the documented meaning of the expression gives %s", spec, c.Name, t.Format(time.RFC3339Nano), got.UTC().Format(time.RFC3339), time.Unix(a.Unix, 0).UTC().Format(time.RFC3339)))
					}
				}
			}
		}
		r.Count(n, n)
		total.Add(n)
	})
	return int(total.Load())
}
