// Package next is the "next" part of C04: for every schedule of a term-menu
// product, every zone of a fixed list and every start instant of a regular grid
// plus a dense window around every offset change of the zone, kit's
// Schedule.Next(t) is compared with the reference scan of absolute time
// (verif/ref/cronref): the earliest whole second strictly after t whose wall
// clock reading in the schedule's zone satisfies the expression, or the zero
// time beyond the five-year horizon.
package next

import (
	"crypto/sha256"
	"encoding/json"
	"fmt"
	"sort"
	"strings"
	"sync"
	"sync/atomic"
	"testing"
	"time"
	_ "time/tzdata"

	"github.com/dapr/kit/cron"

	"verif/enumx"
	"verif/ref/cronref"
)

func TestCheck(t *testing.T) { enumx.Main(t, "C04", "next", run) }

// ---- the explored space ---------------------------------------------------

// Zones: "+05:30" is a fixed offset (no IANA name: the schedule carries no
// zone and is interpreted in the location of the time passed to Next, which is
// the documented default); all others are given through a CRON_TZ= prefix and
// Next is called with UTC times.
var zoneNames = []string{"UTC", "+05:30", "America/New_York", "Europe/London", "America/Sao_Paulo", "Africa/Cairo", "Asia/Amman", "America/Asuncion", "Asia/Gaza", "America/Havana", "Asia/Tehran", "America/Santiago", "Pacific/Apia", "America/St_Johns", "Antarctica/Troll", "Pacific/Chatham", "Australia/Lord_Howe", "Pacific/Norfolk", "America/Caracas", "Asia/Pyongyang", "Asia/Kathmandu"}

// Term menus (second, minute, hour, dom, month, dow). The "wide" menu is used
// on the regular grid, the "window" menu (a subset) around every transition.
// The quick menus are subsets of the thorough ones, so quick explores a subset
// of thorough's cases.
type menus [6][]string

var (
	wideThorough = menus{
		{"0", "*", "30", "*/20"},
		{"0", "*", "30", "45", "*/15", "1"},
		{"*", "0", "1", "2", "3", "23"},
		{"*", "1", "*/2", "2-30/2", "31"},
		{"*", "1", "3,10", "*/2", "2"},
		{"*", "0", "1-5", "6"},
	}
	windowThorough = menus{
		{"0", "*"},
		{"0", "*", "30", "45", "*/15", "1"},
		{"*", "0", "1", "2", "3", "23"},
		{"*", "1", "*/2", "2-30/2"},
		{"*", "3,10"},
		{"*", "0", "1-5", "6"},
	}
	wideQuick = menus{
		{"0", "*"},
		{"0", "*", "30", "*/15"},
		{"*", "0", "2", "23"},
		{"*", "1", "*/2", "31"},
		{"*", "1", "3,10"},
		{"*", "0", "1-5"},
	}
	windowQuick = menus{
		{"0"},
		{"0", "*", "30", "1"},
		{"*", "0", "1", "2", "3", "23"},
		{"*", "*/2", "2-30/2"},
		{"*"},
		{"*", "0", "1-5"},
	}
)

func (m menus) size() int {
	n := 1
	for _, f := range m {
		n *= len(f)
	}
	return n
}

func (m menus) spec(i int) string {
	var tok [6]string
	for f := 5; f >= 0; f-- {
		tok[f] = m[f][i%len(m[f])]
		i /= len(m[f])
	}
	return strings.Join(tok[:], " ")
}

func subset(a, b menus) bool {
	for f := range a {
		for _, x := range a[f] {
			ok := false
			for _, y := range b[f] {
				ok = ok || x == y
			}
			if !ok {
				return false
			}
		}
	}
	return true
}

var (
	eraFrom      = time.Date(2004, 12, 1, 0, 0, 0, 0, time.UTC).Unix()
	eraTo        = time.Date(2037, 2, 1, 0, 0, 0, 0, time.UTC).Unix()
	gridFrom     = time.Date(2005, 1, 1, 0, 0, 0, 0, time.UTC)
	gridTo       = time.Date(2031, 1, 1, 0, 0, 0, 0, time.UTC)
	gridStep     = 97*24*time.Hour + 5*time.Hour + 43*time.Minute + 17*time.Second + 250*time.Millisecond
	windowsFrom  = time.Date(2005, 1, 1, 0, 0, 0, 0, time.UTC).Unix()
	windowsTo    = time.Date(2025, 1, 1, 0, 0, 0, 0, time.UTC).Unix()
	windowBefore = 50 * time.Hour
	windowAfter  = 4 * time.Hour
	windowStep   = 7 * time.Minute
)

type zoneInfo struct {
	name          string
	fixed         bool
	z             *cronref.Zone
	grid          []time.Time // thorough grid; quick uses every 4th
	wins          []time.Time
	nTransWindows int
}

func loadZone(name string) (*zoneInfo, error) {
	zi := &zoneInfo{name: name}
	var loc *time.Location
	if name == "+05:30" {
		loc = time.FixedZone("+05:30", 5*3600+1800)
		zi.fixed = true
	} else {
		var err error
		if loc, err = time.LoadLocation(name); err != nil {
			return nil, err
		}
	}
	z, err := cronref.ScanZone(name, loc, eraFrom, eraTo)
	if err != nil {
		return nil, err
	}
	zi.z = z
	for i, t := 0, gridFrom; t.Before(gridTo); i, t = i+1, t.Add(gridStep) {
		zi.grid = append(zi.grid, t)
	}
	seen := map[int64]bool{}
	add := func(t time.Time) {
		k := t.UnixNano()
		if !seen[k] {
			seen[k] = true
			zi.wins = append(zi.wins, t)
		}
	}
	for _, tr := range z.Transitions {
		if tr < windowsFrom || tr >= windowsTo {
			continue
		}
		zi.nTransWindows++
		T := time.Unix(tr, 0).UTC()
		k := 0
		for d := -windowBefore; d <= windowAfter; d += windowStep {
			t := T.Add(d)
			if k%2 == 1 {
				t = t.Add(500 * time.Millisecond) // sub-second start: Next works from the floor
			}
			add(t)
			k++
		}
		add(T.Add(-time.Second))
		add(T)
	}
	sort.Slice(zi.wins, func(i, j int) bool { return zi.wins[i].Before(zi.wins[j]) })
	return zi, nil
}

// ---- one comparison ---------------------------------------------------------

var secondsLayout = cronref.Layout{Second: cronref.Required, Minute: true, Hour: true, Dom: true, Month: true, Dow: cronref.Required, Descriptors: true}
var secondsParser = cron.NewParser(cron.Second | cron.Minute | cron.Hour | cron.Dom | cron.Month | cron.Dow | cron.Descriptor)

type pair struct {
	zi   *zoneInfo
	spec string
	kit  cron.Schedule
	ref  cronref.Schedule
	sc   *cronref.Scanner
}

func newPair(zi *zoneInfo, spec string) (*pair, error) {
	r := cronref.Parse(spec, secondsLayout)
	if r.Verdict != cronref.Accept || r.Sched.IsEvery || r.Sched.DomStar == cronref.Unspecified || r.Sched.DowStar == cronref.Unspecified {
		return nil, fmt.Errorf("menu expression %q is not given a complete meaning by the reference (%v %s)", spec, r.Verdict, r.Why)
	}
	full := spec
	if !zi.fixed {
		full = "CRON_TZ=" + zi.name + " " + spec
	}
	k, err := secondsParser.Parse(full)
	if err != nil {
		return nil, fmt.Errorf("kit refuses menu expression %q: %v", full, err)
	}
	p := &pair{zi: zi, spec: spec, kit: k, ref: r.Sched}
	p.sc = &cronref.Scanner{Z: zi.z, S: &p.ref, Fast: true}
	return p, nil
}

type rcase struct {
	Zone  string `json:"zone"`
	Spec  string `json:"spec"`
	Unix  int64  `json:"start_unix"`
	Nanos int    `json:"start_nanos"`
}

type mismatch struct {
	key, msg string
	c        rcase
}

// eval compares one start instant; plain=true uses a memory-less reference scan.
func (p *pair) eval(t time.Time, plain bool) (mm *mismatch, nontrivial bool) {
	loc := p.zi.z.Loc
	if p.zi.fixed {
		t = t.In(loc)
	}
	got := p.kit.Next(t)
	var ans cronref.Answer
	if plain {
		ans = cronref.Next(p.zi.z, &p.ref, t)
	} else {
		ans = p.sc.Next(t)
	}
	nontrivial = !ans.Found || ans.Unix != t.Unix()+1
	gotZero := got.IsZero()
	ok := false
	switch {
	case !ans.Found:
		ok = gotZero
	default:
		exact := !gotZero && got.Unix() == ans.Unix && got.Nanosecond() == 0
		// documented horizon: five years; kit searches to the end of the fifth
		// calendar year: between the two, either answer is accepted.
		if ans.Unix <= t.In(loc).AddDate(5, 0, 0).Unix() {
			ok = exact
		} else {
			ok = exact || gotZero
		}
	}
	if ok {
		return nil, nontrivial
	}
	// identity of the finding: the offset change nearest to where the two
	// answers part (the earlier of them), else nearest to the start.
	const near = 50 * 3600
	e := int64(0)
	if ans.Found {
		e = ans.Unix
	}
	if !gotZero && (e == 0 || got.Unix() < e) {
		e = got.Unix()
	}
	key := ""
	if tr, found := p.zi.z.Nearest(e, near); found && e != 0 {
		key = "zone=" + p.zi.name + ";transition=" + time.Unix(tr, 0).UTC().Format(time.RFC3339)
	} else if tr, found := p.zi.z.Nearest(t.Unix(), near); found {
		key = "zone=" + p.zi.name + ";transition=" + time.Unix(tr, 0).UTC().Format(time.RFC3339)
	} else {
		key = "zone=" + p.zi.name + ";no-transition;spec=" + strings.ReplaceAll(p.spec, " ", "_")
	}
	f := func(u int64, zero bool) string {
		if zero {
			return "zero time (none within five years)"
		}
		return time.Unix(u, 0).In(loc).Format("2006-01-02T15:04:05Z07:00 Mon")
	}
	what := "is later than the earliest matching second (a matching instant is skipped)"
	if !gotZero && !p.ref.Matches(got.In(loc)) {
		what = "does not satisfy the expression on the zone's wall clock"
	} else if !gotZero && !got.After(t) {
		what = "is not strictly after t"
	} else if !gotZero && ans.Found && got.Unix() < ans.Unix {
		what = "precedes the reference (reference fault?)"
	} else if !gotZero && got.Nanosecond() != 0 {
		what = "is not a whole second"
	}
	msg := fmt.Sprintf("spec %q zone %s: Next(%s = %s local) = %s, which %s; earliest match: %s", p.spec, p.zi.name, t.UTC().Format(time.RFC3339Nano), t.In(loc).Format("2006-01-02T15:04:05.999Z07:00"), f(got.Unix(), gotZero), what, f(ans.Unix, !ans.Found))
	return &mismatch{key: key, msg: msg, c: rcase{p.zi.name, p.spec, t.Unix(), t.Nanosecond()}}, nontrivial
}

// ---- deterministic aggregation of findings ------------------------------------

type agg struct {
	mu sync.Mutex
	m  map[string]*aggEntry
}
type aggEntry struct {
	n  int64
	ex *mismatch
}

func less(a, b rcase) bool {
	if a.Spec != b.Spec {
		if len(a.Spec) != len(b.Spec) {
			return len(a.Spec) < len(b.Spec)
		}
		return a.Spec < b.Spec
	}
	if a.Unix != b.Unix {
		return a.Unix < b.Unix
	}
	return a.Nanos < b.Nanos
}

func (a *agg) add(m *mismatch) {
	a.mu.Lock()
	e := a.m[m.key]
	if e == nil {
		e = &aggEntry{ex: m}
		a.m[m.key] = e
	} else if less(m.c, e.ex.c) {
		e.ex = m
	}
	e.n++
	a.mu.Unlock()
}

// ---- the part -----------------------------------------------------------------

func run(r *enumx.Run, replay *enumx.ReplayCase) {
	if replay != nil {
		var c rcase
		if err := json.Unmarshal(replay.Case, &c); err != nil {
			panic(err)
		}
		if strings.HasPrefix(c.Spec, "@every ") {
			if m := evalEvery(strings.TrimPrefix(c.Spec, "@every "), time.Unix(c.Unix, int64(c.Nanos)).UTC()); m != nil {
				r.Violation(m.key, m.msg, m.c)
			}
			return
		}
		zi, err := loadZone(c.Zone)
		if err != nil {
			panic(err)
		}
		p, err := newPair(zi, c.Spec)
		if err != nil {
			panic(err)
		}
		if m, _ := p.eval(time.Unix(c.Unix, int64(c.Nanos)).UTC(), true); m != nil {
			r.Violation(m.key, m.msg, m.c)
		}
		return
	}

	wide, window := wideQuick, windowQuick
	gridEvery := 4
	if r.Thorough() {
		wide, window = wideThorough, windowThorough
		gridEvery = 1
	}
	if !subset(wideQuick, wideThorough) || !subset(windowQuick, windowThorough) || !subset(windowThorough, wideThorough) {
		panic("menu inclusion broken: quick must explore a subset of thorough")
	}
	r.Rule("next: each case is one (schedule, zone, start instant) triple: kit's Next(t) against the reference scan of absolute time. Schedules: full product of a term menu per field. Start instants per zone: a regular grid 2005-2030 (step 97d5h43m17.25s) for the wide menu, and for the window menu every 7 minutes from -50h to +4h around every UTC-offset change of the zone in 2005-2024 (alternating whole-second and half-second starts, plus the instant itself and one second before). Also @every durations x starts (closed form) and rarely/never matching schedules for the five-year horizon. A case is non-trivial when the answer is not simply the next second.")

	// zones
	zis := make([]*zoneInfo, len(zoneNames))
	errs := make([]error, len(zoneNames))
	r.Parallel(len(zoneNames), func(i int) { zis[i], errs[i] = loadZone(zoneNames[i]) })
	fp := sha256.New()
	zoneFacts := map[string]any{}
	all15 := true
	for i, zi := range zis {
		if errs[i] != nil || zi == nil {
			panic(fmt.Sprintf("zone %s: %v", zoneNames[i], errs[i]))
		}
		inWin := []string{}
		for _, tr := range zi.z.Transitions {
			if tr >= windowsFrom && tr < windowsTo {
				fmt.Fprintf(fp, "%s %d %d\n", zi.name, tr, offsetAt(zi.z.Loc, tr))
				inWin = append(inWin, time.Unix(tr, 0).UTC().Format(time.RFC3339))
			}
		}
		un := []string{}
		for _, u := range zi.z.UnalignedTransitions {
			un = append(un, time.Unix(u, 0).UTC().Format(time.RFC3339))
		}
		all15 = all15 && zi.z.AllOffsets15m
		zoneFacts[zi.name] = map[string]any{"offset_changes_2005_2024": len(inWin), "offset_changes_in_scanned_era": len(zi.z.Transitions), "offsets_s": zi.z.Offsets, "all_offsets_multiple_of_15m": zi.z.AllOffsets15m, "changes_not_on_a_utc_quarter_hour_(scan_falls_back_to_minutes_there)": un, "window_starts": len(zi.wins)}
	}
	r.Set("zones", zoneFacts)
	r.Set("all_zone_offsets_multiple_of_15m", all15)
	r.Set("tz_transitions_fingerprint_2005_2024", fmt.Sprintf("%x", fp.Sum(nil))[:16])

	ag := &agg{m: map[string]*aggEntry{}}
	var probes, selfChecks atomic.Int64

	// one unit = (zone, schedule): starts ascending, one continuing reference scan.
	unit := func(zi *zoneInfo, spec string, starts []time.Time) {
		p, err := newPair(zi, spec)
		if err != nil {
			panic(err)
		}
		var n, nt int64
		for i, t := range starts {
			m, nontriv := p.eval(t, false)
			n++
			if nontriv {
				nt++
			}
			if m != nil {
				ag.add(m)
			}
			if i%499 == 0 {
				// machinery self-check: the continuing scan equals the memory-less one
				q := &pair{zi: p.zi, spec: p.spec, kit: p.kit, ref: p.ref}
				m2, _ := q.eval(t, true)
				if (m == nil) != (m2 == nil) || (m != nil && m.msg != m2.msg) {
					panic(fmt.Sprintf("reference self-check failed for %q in %s at %v", spec, zi.name, t))
				}
				selfChecks.Add(1)
			}
		}
		probes.Add(p.sc.Probes)
		r.Count(n, nt)
	}

	// A. wide menu x zones x grid
	{
		nS := wide.size()
		total := nS * len(zis)
		done := r.Parallel(total, func(i int) {
			zi := zis[i%len(zis)]
			var starts []time.Time
			for g, t := range zi.grid {
				if g%gridEvery == 0 {
					starts = append(starts, t)
				}
			}
			unit(zi, wide.spec(i/len(zis)), starts)
		})
		desc := fmt.Sprintf("wide menu (%d schedules: %v) x %d zones x regular grid (%d instants)", nS, wide, len(zis), (len(zis[0].grid)+gridEvery-1)/gridEvery)
		if done < total {
			r.Incomplete(fmt.Sprintf("%s: %d of %d (schedule, zone) units", desc, done, total))
		} else {
			r.Space(desc)
		}
	}

	// B. window menu x zones x transition windows
	{
		nS := window.size()
		var withWins []*zoneInfo
		nStarts := 0
		for _, zi := range zis {
			if len(zi.wins) > 0 {
				withWins = append(withWins, zi)
				nStarts += len(zi.wins)
			}
		}
		total := nS * len(withWins)
		done := r.Parallel(total, func(i int) {
			zi := withWins[i%len(withWins)]
			unit(zi, window.spec(i/len(withWins)), zi.wins)
		})
		desc := fmt.Sprintf("window menu (%d schedules: %v) x %d zones with offset changes x all window starts (%d per schedule)", nS, window, len(withWins), nStarts)
		if done < total {
			r.Incomplete(fmt.Sprintf("%s: %d of %d (schedule, zone) units", desc, done, total))
		} else {
			r.Space(desc)
		}
	}

	// C. five-year horizon: schedules that match rarely or never
	{
		rare := []string{"0 0 0 30 2 *", "0 0 0 31 2,4,6,9,11 ?", "0 0 0 29 2 *", "0 0 12 29 2 0", "* * * 31 4 *", "0 0 0 29 2 6"}
		every := 16
		if r.Thorough() {
			every = 8
		}
		total := len(rare) * len(zis)
		done := r.Parallel(total, func(i int) {
			zi := zis[i%len(zis)]
			var starts []time.Time
			for g, t := range zi.grid {
				if g%every == 3 {
					starts = append(starts, t)
				}
			}
			unit(zi, rare[i/len(zis)], starts)
		})
		desc := fmt.Sprintf("horizon: %d rarely/never matching schedules %v x %d zones x every %dth grid instant", len(rare), rare, len(zis), every)
		if done < total {
			r.Incomplete(desc)
		} else {
			r.Space(desc)
		}
	}

	// D. @every
	{
		durs := []string{"1s", "2s", "59s", "1m", "90m", "1h30m10s", "24h", "8760h", "1.5s", "2h45m30.9s", "999ms", "500ms", "1ns", "0s", "-5s"}
		var n int64
		for _, d := range durs {
			for _, zi := range zis {
				for g, t := range zi.grid {
					if g%gridEvery != 0 {
						continue
					}
					for _, ns := range []int{0, 1, 499999999, 999999999} {
						tt := t.Truncate(time.Second).Add(time.Duration(ns)).In(zi.z.Loc)
						n++
						if m := evalEvery(d, tt); m != nil {
							ag.add(m)
						}
					}
				}
			}
		}
		r.Count(n, n)
		r.Space(fmt.Sprintf("@every: %d durations x zones (location of t) x grid x 4 sub-second offsets, closed form", len(durs)))
	}

	r.Set("reference_instants_probed", probes.Load())
	r.Set("reference_self_checks", selfChecks.Load())
	r.Sample(map[string]any{"zone": "America/New_York", "spec": "0 30 2 * * *", "start": "2012-03-11T05:00:00Z", "reference": "2012-03-12T02:30:00-04:00 (02:30 does not occur on the spring-forward day)"})
	r.Sample(map[string]any{"zone": "Australia/Lord_Howe", "spec": "0 45 1 * * *", "start": "window around a 30-minute shift", "reference": "first of the two 01:45 readings on the fall-back day"})

	keys := make([]string, 0, len(ag.m))
	for k := range ag.m {
		keys = append(keys, k)
	}
	sort.Strings(keys)
	classes := map[string]int{}
	for _, k := range keys {
		e := ag.m[k]
		r.Violation(k, fmt.Sprintf("%s  [%d cases with this key; first by (spec, start) shown]", e.ex.msg, e.n), e.ex.c)
		classes[classify(k, zis)]++
	}
	r.Set("finding_keys_by_class", classes)
}

func offsetAt(loc *time.Location, u int64) int {
	_, off := time.Unix(u, 0).In(loc).Zone()
	return off
}

// classify a finding key by the kind of transition it sits at (for the notes).
func classify(key string, zis []*zoneInfo) string {
	if !strings.Contains(key, ";transition=") {
		return "no-transition"
	}
	parts := strings.SplitN(key, ";transition=", 2)
	name := strings.TrimPrefix(parts[0], "zone=")
	tr, err := time.Parse(time.RFC3339, parts[1])
	if err != nil {
		return "?"
	}
	for _, zi := range zis {
		if zi.name != name {
			continue
		}
		u := tr.Unix()
		before, after := offsetAt(zi.z.Loc, u-1), offsetAt(zi.z.Loc, u)
		shift := after - before
		localBefore := time.Unix(u, 0).In(time.FixedZone("", before))
		whole := shift%3600 == 0 && localBefore.Minute() == 0 && localBefore.Second() == 0
		switch {
		case !whole:
			return "(i) shift or local instant not a whole hour"
		case shift > 0:
			// gap [localBefore, localBefore+shift)
			if localBefore.Hour() == 0 || localBefore.Add(time.Duration(shift)*time.Second).Day() != localBefore.Day() {
				return "(ii) gap swallowing local midnight"
			}
			return "gap, whole hour, not at midnight"
		default:
			return "(iii) overlap (wall time repeated)"
		}
	}
	return "?"
}

func evalEvery(d string, t time.Time) *mismatch {
	k, err := secondsParser.Parse("@every " + d)
	if err != nil {
		return &mismatch{key: "every;d=" + d, msg: fmt.Sprintf("@every %s refused: %v", d, err), c: rcase{"", "@every " + d, t.Unix(), t.Nanosecond()}}
	}
	dur, _ := time.ParseDuration(d)
	want := cronref.EveryNext(cronref.EveryDelay(dur), t)
	got := k.Next(t)
	if got.Equal(want) {
		return nil
	}
	return &mismatch{key: "every;d=" + d, msg: fmt.Sprintf("@every %s: Next(%s) = %s, documented: t truncated to the second + %v = %s", d, t.Format(time.RFC3339Nano), got.Format(time.RFC3339Nano), cronref.EveryDelay(dur), want.Format(time.RFC3339Nano)), c: rcase{"", "@every " + d, t.Unix(), t.Nanosecond()}}
}
