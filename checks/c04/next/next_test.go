// Package next is the "next" part of C04: for every schedule of a term-menu
// product, every zone of a fixed list and every start instant of a regular grid
// plus a dense window around every offset change of the zone, kit's
// Schedule.Next(t) is compared with the reference scan of absolute time
// (verif/ref/cronref): the earliest whole second strictly after t whose wall
// clock reading in the schedule's zone satisfies the expression, or the zero
// time beyond the five-year horizon.
//
// kit's Next is run in worker processes (this same test binary re-executed
// with VERIF_C04_WORKER=1): a call that does not return cannot be abandoned
// inside a Go process, so a worker that sees one reports it and exits, and the
// driver carries on with a fresh worker.
package next

import (
	"bufio"
	"crypto/sha256"
	"encoding/json"
	"fmt"
	"io"
	"os"
	"os/exec"
	"runtime"
	"sort"
	"strings"
	"sync"
	"sync/atomic"
	"syscall"
	"testing"
	"time"
	_ "time/tzdata"

	"github.com/dapr/kit/cron"

	"verif/enumx"
	"verif/ref/cronref"
)

func TestCheck(t *testing.T) {
	if os.Getenv("VERIF_C04_WORKER") != "" {
		workerMain()
		return
	}
	enumx.Main(t, "C04", "next", run)
}

// ---- the explored space ---------------------------------------------------

// Zones: "+05:30" is a fixed offset (no IANA name: the schedule carries no
// zone and is interpreted in the location of the time passed to Next, which is
// the documented default); all others are given through a CRON_TZ= prefix and
// Next is called with UTC times.
var zoneNames = []string{"UTC", "+05:30", "America/New_York", "Europe/London", "America/Sao_Paulo", "Africa/Cairo", "Asia/Amman", "America/Asuncion", "Asia/Gaza", "America/Havana", "Asia/Tehran", "America/Santiago", "Pacific/Apia", "America/St_Johns", "Antarctica/Troll", "Pacific/Chatham", "Australia/Lord_Howe", "Pacific/Norfolk", "America/Caracas", "Asia/Pyongyang", "Asia/Kathmandu"}

// Term menus (second, minute, hour, dom, month, dow). The "wide" menu is used
// on the regular grid, the "window" menu (a subset) around every transition.
// The quick menus are subsets of the thorough ones, so quick explores a subset
// of thorough's cases.
type menus [6][]string

var (
	wideThorough = menus{
		{"0", "*", "30", "*/20"},
		{"0", "*", "30", "45", "*/15", "1"},
		{"*", "0", "1", "2", "3", "23"},
		{"*", "1", "*/2", "2-30/2", "31"},
		{"*", "1", "3,10", "*/2", "2"},
		{"*", "0", "1-5", "6"},
	}
	windowThorough = menus{
		{"0", "*"},
		{"0", "*", "30", "45", "*/15", "1"},
		{"*", "0", "1", "2", "3", "23"},
		{"*", "1", "*/2", "2-30/2"},
		{"*", "3,10"},
		{"*", "0", "1-5", "6"},
	}
	wideQuick = menus{
		{"0", "*"},
		{"0", "*", "*/15"},
		{"*", "0", "2", "23"},
		{"*", "1", "*/2", "31"},
		{"*", "1", "3,10"},
		{"*", "1-5"},
	}
	windowQuick = menus{
		{"0"},
		{"0", "*", "30", "1"},
		{"*", "0", "1", "2", "3", "23"},
		{"*", "*/2", "2-30/2"},
		{"*"},
		{"*"},
	}
	rareSchedules = []string{"0 0 0 30 2 *", "0 0 0 31 2,4,6,9,11 ?", "0 0 0 29 2 *", "0 0 12 29 2 0", "* * * 31 4 *", "0 0 0 29 2 6"}
)

func (m menus) size() int {
	n := 1
	for _, f := range m {
		n *= len(f)
	}
	return n
}

func (m menus) spec(i int) string {
	var tok [6]string
	for f := 5; f >= 0; f-- {
		tok[f] = m[f][i%len(m[f])]
		i /= len(m[f])
	}
	return strings.Join(tok[:], " ")
}

func subset(a, b menus) bool {
	for f := range a {
		for _, x := range a[f] {
			ok := false
			for _, y := range b[f] {
				ok = ok || x == y
			}
			if !ok {
				return false
			}
		}
	}
	return true
}

var (
	eraFrom      = time.Date(2004, 12, 1, 0, 0, 0, 0, time.UTC).Unix()
	eraTo        = time.Date(2037, 2, 1, 0, 0, 0, 0, time.UTC).Unix()
	gridFrom     = time.Date(2005, 1, 1, 0, 0, 0, 0, time.UTC)
	gridTo       = time.Date(2031, 1, 1, 0, 0, 0, 0, time.UTC)
	gridStep     = 97*24*time.Hour + 5*time.Hour + 43*time.Minute + 17*time.Second + 250*time.Millisecond
	windowsFrom  = time.Date(2005, 1, 1, 0, 0, 0, 0, time.UTC).Unix()
	windowsTo    = time.Date(2025, 1, 1, 0, 0, 0, 0, time.UTC).Unix()
	windowBefore = 50 * time.Hour
	windowAfter  = 4 * time.Hour
	windowStep   = 7 * time.Minute
)

// group: start instants that belong together; after a call that does not
// return, the rest of the group before pivot (the transition) is not tried,
// and after a second one the rest of the group.
type group struct {
	pivot  time.Time
	starts []time.Time
}

type zoneInfo struct {
	name  string
	fixed bool
	z     *cronref.Zone
	grid  []time.Time
	wins  []group
	nWin  int
}

func loadZone(name string, crossCheck bool) (*zoneInfo, error) {
	return loadZoneEra(name, eraFrom, eraTo, crossCheck)
}

// loadZoneEra scans the zone over [from, to] (Unix seconds); the grid and the
// transition windows are only populated where they fall into that era.
func loadZoneEra(name string, from, to int64, crossCheck bool) (*zoneInfo, error) {
	zi := &zoneInfo{name: name}
	var loc *time.Location
	if name == "+05:30" {
		loc = time.FixedZone("+05:30", 5*3600+1800)
		zi.fixed = true
	} else {
		var err error
		if loc, err = time.LoadLocation(name); err != nil {
			return nil, err
		}
	}
	z, err := cronref.ScanZone(name, loc, from, to, crossCheck)
	if err != nil {
		return nil, err
	}
	zi.z = z
	for t := gridFrom; t.Before(gridTo); t = t.Add(gridStep) {
		zi.grid = append(zi.grid, t)
	}
	for _, tr := range z.Transitions {
		if tr < windowsFrom || tr >= windowsTo {
			continue
		}
		T := time.Unix(tr, 0).UTC()
		g := group{pivot: T}
		k := 0
		for d := -windowBefore; d <= windowAfter; d += windowStep {
			t := T.Add(d)
			if k%2 == 1 {
				t = t.Add(500 * time.Millisecond) // sub-second start: Next works from the floor
			}
			g.starts = append(g.starts, t)
			k++
		}
		g.starts = append(g.starts, T.Add(-time.Second), T)
		sort.Slice(g.starts, func(i, j int) bool { return g.starts[i].Before(g.starts[j]) })
		zi.wins = append(zi.wins, g)
		zi.nWin += len(g.starts)
	}
	return zi, nil
}

// ---- one comparison ---------------------------------------------------------

var secondsLayout = cronref.Layout{Second: cronref.Required, Minute: true, Hour: true, Dom: true, Month: true, Dow: cronref.Required, Descriptors: true}
var secondsParser = cron.NewParser(cron.Second | cron.Minute | cron.Hour | cron.Dom | cron.Month | cron.Dow | cron.Descriptor)

type pair struct {
	zi   *zoneInfo
	spec string
	kit  cron.Schedule
	ref  cronref.Schedule
	sc   *cronref.Scanner
}

func newPair(zi *zoneInfo, spec string) (*pair, error) {
	r := cronref.Parse(spec, secondsLayout)
	if r.Verdict != cronref.Accept || r.Sched.IsEvery || r.Sched.DomStar == cronref.Unspecified || r.Sched.DowStar == cronref.Unspecified {
		return nil, fmt.Errorf("menu expression %q is not given a complete meaning by the reference (%v %s)", spec, r.Verdict, r.Why)
	}
	full := spec
	if !zi.fixed {
		full = "CRON_TZ=" + zi.name + " " + spec
	}
	k, err := secondsParser.Parse(full)
	if err != nil {
		return nil, fmt.Errorf("kit refuses menu expression %q: %v", full, err)
	}
	p := &pair{zi: zi, spec: spec, kit: k, ref: r.Sched}
	p.sc = &cronref.Scanner{Z: zi.z, S: &p.ref, Fast: true}
	return p, nil
}

type rcase struct {
	Zone  string `json:"zone"`
	Spec  string `json:"spec"`
	Unix  int64  `json:"start_unix"`
	Nanos int    `json:"start_nanos"`
}

type mismatch struct {
	Key  string `json:"key"`
	Msg  string `json:"msg"`
	C    rcase  `json:"case"`
	N    int64  `json:"n"`
	Hung int64  `json:"hung"`
}

// watch: what the worker's watchdog needs to know about the call in flight.
type watch struct {
	busySince atomic.Int64 // mono() when kit's Next was entered; 0 = not inside
	p         *pair
	t         time.Time
	ans       cronref.Answer
}

var inFlight watch

var monoBase = time.Now()

// mono: monotonic nanoseconds since process start (never 0).
func mono() int64 { return int64(time.Since(monoBase)) + 1 }

// eval compares one start instant; plain=true uses the memory-less Plain-mode
// reference (the definition) instead of the continuing Fast-mode scan.
func (p *pair) eval(t time.Time, plain bool) (mm *mismatch, nontrivial bool) {
	loc := p.zi.z.Loc
	if p.zi.fixed {
		t = t.In(loc)
	}
	var ans cronref.Answer
	if plain {
		ans = cronref.Next(p.zi.z, &p.ref, t)
	} else {
		ans = p.sc.Next(t)
	}
	inFlight.p, inFlight.t, inFlight.ans = p, t, ans
	inFlight.busySince.Store(mono())
	got := p.kit.Next(t)
	inFlight.busySince.Store(0)
	nontrivial = !ans.Found || ans.Unix != t.Unix()+1
	mm = p.judge(t, ans, got, false)
	if mm != nil && strings.Contains(mm.Key, ";no-transition;") {
		if tr, ok := p.farCulprit(t, ans); ok {
			mm.Key = "zone=" + p.zi.name + ";transition=" + time.Unix(tr, 0).UTC().Format(time.RFC3339) + mm.Key[strings.Index(mm.Key, ";kind="):]
		}
	}
	return mm, nontrivial
}

// farCulprit names the offset change behind a mismatch that has none within
// 50 h of the start or of the answers (kit's search walks over month and day
// starts, so the change that derails it can lie weeks before the start or
// months before the answer). Every start in [t, want) has the same earliest
// match; the latest of them from which kit still answers wrongly is found by
// bisection, and the culprit is the latest offset change between 32 days
// before and 50 h after that start.
func (p *pair) farCulprit(t time.Time, ans cronref.Answer) (int64, bool) {
	if !ans.Found {
		return 0, false
	}
	fails := func(u int64) bool {
		tt := time.Unix(u, 0).UTC()
		if p.zi.fixed {
			tt = tt.In(p.zi.z.Loc)
		}
		inFlight.p, inFlight.t, inFlight.ans = p, tt, ans
		inFlight.busySince.Store(mono())
		got := p.kit.Next(tt)
		inFlight.busySince.Store(0)
		return p.judge(tt, ans, got, false) != nil
	}
	lo, hi := t.Unix(), ans.Unix-1
	if hi <= lo {
		return 0, false
	}
	if fails(hi) {
		lo = hi
	} else {
		for hi-lo > 1 {
			mid := lo + (hi-lo)/2
			if fails(mid) {
				lo = mid
			} else {
				hi = mid
			}
		}
	}
	trs := p.zi.z.Transitions
	i := sort.Search(len(trs), func(i int) bool { return trs[i] > lo+50*3600 })
	if i == 0 || trs[i-1] < lo-32*86400 {
		return 0, false
	}
	return trs[i-1], true
}

func (p *pair) judge(t time.Time, ans cronref.Answer, got time.Time, hung bool) *mismatch {
	loc := p.zi.z.Loc
	gotZero := got.IsZero()
	ok := false
	switch {
	case hung:
	case !ans.Found:
		ok = gotZero
	default:
		exact := !gotZero && got.Unix() == ans.Unix && got.Nanosecond() == 0
		// documented horizon: five years; kit searches to the end of the fifth
		// calendar year: between the two, either answer is accepted.
		if ans.Unix <= t.In(loc).AddDate(5, 0, 0).Unix() {
			ok = exact
		} else {
			ok = exact || gotZero
		}
	}
	if ok {
		return nil
	}
	// identity of the finding: the offset change nearest to where the two
	// answers part (the earlier of them), else nearest to the start.
	const near = 50 * 3600
	e := int64(0)
	if ans.Found {
		e = ans.Unix
	}
	if !hung && !gotZero && (e == 0 || got.Unix() < e) {
		e = got.Unix()
	}
	// kind: what is wrong with kit's answer; field: for a non-matching answer the
	// first (coarsest) field of its wall-clock reading the expression rejects,
	// otherwise the coarsest wall-clock unit in which it differs from the
	// earliest match ("offset": same reading, other occurrence; "never": zero time).
	kind, field := "late", "never"
	switch {
	case hung:
		kind, field = "no-return", "none"
	case !gotZero && (!p.ref.Matches(got.In(loc)) || got.Nanosecond() != 0):
		kind, field = "nonmatching", p.ref.Mismatch(got.In(loc))
		if field == "" {
			field = "subsecond"
		}
	case !gotZero:
		if ans.Found && got.Unix() < ans.Unix {
			kind = "early"
		}
		field = "beyond-horizon"
		if ans.Found {
			field = wallDiff(got.In(loc), time.Unix(ans.Unix, 0).In(loc))
		}
	}
	suffix := ";kind=" + kind + ";field=" + field
	key := ""
	if tr, found := p.zi.z.Nearest(e, near); found && e != 0 {
		key = "zone=" + p.zi.name + ";transition=" + time.Unix(tr, 0).UTC().Format(time.RFC3339) + suffix
	} else if tr, found := p.zi.z.Nearest(t.Unix(), near); found {
		key = "zone=" + p.zi.name + ";transition=" + time.Unix(tr, 0).UTC().Format(time.RFC3339) + suffix
	} else if subMinute(loc, e) || subMinute(loc, t.Unix()) {
		// a local-mean-time era: the zone's UTC offset is not a whole number of
		// minutes there (kit truncates to minutes and seconds in absolute time)
		key = "zone=" + p.zi.name + ";sub-minute-offset" + suffix
	} else {
		key = "zone=" + p.zi.name + ";no-transition;spec=" + strings.ReplaceAll(p.spec, " ", "_") + suffix
	}
	f := func(u int64, zero bool) string {
		if zero {
			return "zero time (none within five years)"
		}
		return time.Unix(u, 0).In(loc).Format("2006-01-02T15:04:05Z07:00 Mon")
	}
	head := fmt.Sprintf("spec %q zone %s: Next(%s = %s local)", p.spec, p.zi.name, t.UTC().Format(time.RFC3339Nano), t.In(loc).Format("2006-01-02T15:04:05.999Z07:00"))
	c := rcase{p.zi.name, p.spec, t.Unix(), t.Nanosecond()}
	if hung {
		return &mismatch{Key: key, Msg: fmt.Sprintf("%s did not return (no answer within the time limit; the search loop does not terminate); earliest match: %s", head, f(ans.Unix, !ans.Found)), C: c, N: 1, Hung: 1}
	}
	what := "is later than the earliest matching second (a matching instant is skipped)"
	if !gotZero && !p.ref.Matches(got.In(loc)) {
		what = "does not satisfy the expression on the zone's wall clock"
	} else if !gotZero && !got.After(t) {
		what = "is not strictly after t"
	} else if !gotZero && ans.Found && got.Unix() < ans.Unix {
		what = "is earlier than the reference's answer yet not after t or otherwise wrong (reference fault?)"
	} else if !gotZero && got.Nanosecond() != 0 {
		what = "is not a whole second"
	}
	return &mismatch{Key: key, Msg: fmt.Sprintf("%s = %s, which %s; earliest match: %s", head, f(got.Unix(), gotZero), what, f(ans.Unix, !ans.Found)), C: c, N: 1}
}

func subMinute(loc *time.Location, u int64) bool {
	if u == 0 {
		return false
	}
	_, off := time.Unix(u, 0).In(loc).Zone()
	return off%60 != 0
}

// wallDiff: the coarsest wall-clock unit in which two readings differ.
func wallDiff(a, b time.Time) string {
	ay, am, ad := a.Date()
	by, bm, bd := b.Date()
	ah, ami, as := a.Clock()
	bh, bmi, bs := b.Clock()
	switch {
	case ay != by:
		return "year"
	case am != bm:
		return "month"
	case ad != bd:
		return "day"
	case ah != bh:
		return "hour"
	case ami != bmi:
		return "minute"
	case as != bs:
		return "second"
	}
	return "offset"
}

func less(a, b rcase) bool {
	if a.Spec != b.Spec {
		if len(a.Spec) != len(b.Spec) {
			return len(a.Spec) < len(b.Spec)
		}
		return a.Spec < b.Spec
	}
	if a.Unix != b.Unix {
		return a.Unix < b.Unix
	}
	return a.Nanos < b.Nanos
}

// merge keeps, per key, the counts and the first example by (spec, start).
func merge(m map[string]*mismatch, x *mismatch) {
	e := m[x.Key]
	if e == nil {
		c := *x
		m[x.Key] = &c
		return
	}
	e.N += x.N
	e.Hung += x.Hung
	if less(x.C, e.C) {
		e.Msg, e.C = x.Msg, x.C
	}
}

// ---- worker protocol ----------------------------------------------------------

type unitReq struct {
	ID      int        `json:"id"`
	Zone    string     `json:"zone"`
	Spec    string     `json:"spec"`
	Kind    string     `json:"kind"`     // grid | win | single | every | list
	EraFrom int64      `json:"era_from"` // scanned era of the zone, if not the default one
	EraTo   int64      `json:"era_to"`
	Starts  [][2]int64 `json:"starts"` // list: start instants (Unix seconds, nanoseconds), ascending
	Mod     int        `json:"mod"`    // grid: indices with index%Mod==Rem
	Rem     int        `json:"rem"`
	FromG   int        `json:"from_g"` // resume position
	FromI   int        `json:"from_i"`
	Unix    int64      `json:"unix"` // single
	Nanos   int        `json:"nanos"`
	LimitMs int        `json:"limit_ms"`
}

type unitResp struct {
	ID         int         `json:"id"`
	N          int64       `json:"n"`
	NT         int64       `json:"nt"`
	Probes     int64       `json:"probes"`
	SelfChecks int64       `json:"self_checks"`
	Skipped    int64       `json:"skipped"`
	Mis        []*mismatch `json:"mis"`
	Hung       bool        `json:"hung"`
	HungCase   *mismatch   `json:"hung_case"`
	NextG      int         `json:"next_g"` // where to resume behind a call that did not return
	NextI      int         `json:"next_i"`
	CurG       int         `json:"cur_g"` // position of that call
	CurI       int         `json:"cur_i"`
}

func groupsFor(zi *zoneInfo, q *unitReq) []group {
	switch q.Kind {
	case "grid":
		var gs []group
		for i, t := range zi.grid {
			if i%q.Mod == q.Rem {
				gs = append(gs, group{starts: []time.Time{t}})
			}
		}
		return gs
	case "win":
		return zi.wins
	case "single":
		return []group{{starts: []time.Time{time.Unix(q.Unix, int64(q.Nanos)).UTC()}}}
	case "list":
		var gs []group
		for _, sn := range q.Starts {
			gs = append(gs, group{starts: []time.Time{time.Unix(sn[0], sn[1]).UTC()}})
		}
		return gs
	}
	panic("kind " + q.Kind)
}

// workerMain: read unit requests from stdin, answer on stdout. If kit's Next
// does not return within the limit, answer with what was done so far and exit.
func workerMain() {
	in := bufio.NewReaderSize(os.Stdin, 1<<16)
	out := bufio.NewWriter(os.Stdout)
	zones := map[string]*zoneInfo{}
	var mu sync.Mutex // guards cur* against the watchdog
	var cur *unitResp
	var curMis map[string]*mismatch
	var curGroups []group
	var curG, curI int
	var limit atomic.Int64
	limit.Store(int64(5 * time.Second))
	evals := 0 // across units: every 2003rd evaluation is self-checked
	flush := func(r *unitResp, mis map[string]*mismatch) {
		keys := make([]string, 0, len(mis))
		for k := range mis {
			keys = append(keys, k)
		}
		sort.Strings(keys)
		for _, k := range keys {
			r.Mis = append(r.Mis, mis[k])
		}
		b, _ := json.Marshal(r)
		out.Write(b)
		out.WriteByte('\n')
		out.Flush()
	}
	go func() {
		for {
			time.Sleep(50 * time.Millisecond)
			since := inFlight.busySince.Load()
			if since == 0 || mono()-since < limit.Load() {
				continue
			}
			// the evaluating goroutine is stuck inside kit's Next: nothing below is written concurrently
			mu.Lock()
			p, t, ans := inFlight.p, inFlight.t, inFlight.ans
			h := p.judge(t, ans, time.Time{}, true)
			cur.Hung, cur.HungCase = true, h
			cur.CurG, cur.CurI = curG, curI
			// where to resume: behind the pivot of this group, else the next group
			g := curGroups[curG]
			ng, ni := curG+1, 0
			if !g.pivot.IsZero() && t.Before(g.pivot) {
				for j := curI + 1; j < len(g.starts); j++ {
					if !g.starts[j].Before(g.pivot) {
						ng, ni = curG, j
						break
					}
				}
			}
			if ng == curG {
				cur.Skipped = int64(ni - curI - 1)
			} else {
				cur.Skipped = int64(len(g.starts) - curI - 1)
			}
			cur.NextG, cur.NextI = ng, ni
			cur.Probes = p.sc.Probes
			flush(cur, curMis)
			os.Exit(0)
		}
	}()
	for {
		line, err := in.ReadBytes('\n')
		if err != nil {
			return
		}
		var q unitReq
		if err := json.Unmarshal(line, &q); err != nil {
			panic(err)
		}
		if q.LimitMs > 0 {
			limit.Store(int64(q.LimitMs) * int64(time.Millisecond))
		}
		resp := &unitResp{ID: q.ID}
		mis := map[string]*mismatch{}
		if q.Kind == "every" {
			evalEveryUnit(&q, resp, mis)
			flush(resp, mis)
			continue
		}
		from, to := eraFrom, eraTo
		if q.EraFrom != 0 {
			from, to = q.EraFrom, q.EraTo
		} else if q.Kind == "single" && (q.Unix < eraFrom || q.Unix > eraTo-7*366*86400) {
			from, to = q.Unix-366*86400, q.Unix+8*366*86400 // replay of a case outside the default era
		}
		zkey := fmt.Sprintf("%s@%d", q.Zone, from)
		zi := zones[zkey]
		if zi == nil {
			if zi, err = loadZoneEra(q.Zone, from, to, false); err != nil { // the driver has cross-checked this zone and era
				panic(err)
			}
			zones[zkey] = zi
		}
		p, err := newPair(zi, q.Spec)
		if err != nil {
			panic(err)
		}
		groups := groupsFor(zi, &q)
		mu.Lock()
		cur, curMis, curGroups = resp, mis, groups
		mu.Unlock()
		for g := q.FromG; g < len(groups); g++ {
			i0 := 0
			if g == q.FromG {
				i0 = q.FromI
			}
			for i := i0; i < len(groups[g].starts); i++ {
				t := groups[g].starts[i]
				mu.Lock()
				curG, curI = g, i
				mu.Unlock()
				m, nontriv := p.eval(t, q.Kind == "single" && zi.z.AllOffsets15m)
				mu.Lock()
				resp.N++
				if nontriv {
					resp.NT++
				}
				if m != nil {
					merge(mis, m)
				}
				mu.Unlock()
				if evals%2003 == 0 && q.Kind != "single" && zi.z.AllOffsets15m { // (Plain mode would crawl second by second through an LMT era)
					// machinery self-check: the continuing Fast scan equals the memory-less Plain one
					plain := cronref.Next(zi.z, &p.ref, inFlight.t)
					if plain != inFlight.ans {
						panic(fmt.Sprintf("reference self-check failed for %q in %s at %v: fast %v plain %v", q.Spec, zi.name, t, inFlight.ans, plain))
					}
					resp.SelfChecks++
				}
				evals++
			}
		}
		mu.Lock()
		resp.Probes = p.sc.Probes
		resp.NextG = len(groups)
		flush(resp, mis)
		cur = nil
		mu.Unlock()
	}
}

var everyDurations = []string{"1s", "2s", "59s", "1m", "90m", "1h30m10s", "24h", "8760h", "1.5s", "2h45m30.9s", "999ms", "500ms", "1ns", "0s", "-5s"}

func evalEveryUnit(q *unitReq, resp *unitResp, mis map[string]*mismatch) {
	if q.Unix != 0 {
		if m := evalEvery(q.Spec, time.Unix(q.Unix, int64(q.Nanos)).UTC()); m != nil {
			merge(mis, m)
		}
		resp.N, resp.NT = 1, 1
		return
	}
	zi, err := loadZoneLight(q.Zone)
	if err != nil {
		panic(err)
	}
	for g := 0; ; g++ {
		t := gridFrom.Add(time.Duration(g) * gridStep)
		if !t.Before(gridTo) {
			break
		}
		if g%q.Mod != q.Rem {
			continue
		}
		for _, d := range everyDurations {
			for _, ns := range []int{0, 1, 499999999, 999999999} {
				tt := t.Truncate(time.Second).Add(time.Duration(ns)).In(zi)
				resp.N++
				resp.NT++
				if m := evalEvery(d, tt); m != nil {
					merge(mis, m)
				}
			}
		}
	}
}

func loadZoneLight(name string) (*time.Location, error) {
	if name == "+05:30" {
		return time.FixedZone("+05:30", 5*3600+1800), nil
	}
	return time.LoadLocation(name)
}

func evalEvery(d string, t time.Time) *mismatch {
	c := rcase{t.Location().String(), "@every " + d, t.Unix(), t.Nanosecond()}
	k, err := secondsParser.Parse("@every " + d)
	if err != nil {
		return &mismatch{Key: "every;d=" + d, Msg: fmt.Sprintf("@every %s refused: %v", d, err), C: c, N: 1}
	}
	dur, _ := time.ParseDuration(d)
	want := cronref.EveryNext(cronref.EveryDelay(dur), t)
	got := k.Next(t)
	if got.Equal(want) {
		return nil
	}
	return &mismatch{Key: "every;d=" + d, Msg: fmt.Sprintf("@every %s: Next(%s) = %s, documented: t truncated to the second + %v = %s", d, t.Format(time.RFC3339Nano), got.Format(time.RFC3339Nano), cronref.EveryDelay(dur), want.Format(time.RFC3339Nano)), C: c, N: 1}
}

// ---- the horizon-boundary family ---------------------------------------------------

var (
	// years before non-leap century years (1899, 2099, 2199: the next 29 Feb is 8
	// years after the previous one and lies in calendar year start+5 for starts
	// in C-1) and before leap ones (1999, 2399)
	horizonCenturies = []int{1900, 2000, 2100, 2200, 2400}
	horizonZones     = []string{"UTC", "+05:30", "America/New_York", "Europe/London"}
	horizonSpecs     = []string{
		"0 0 0 29 2 *", "0 0 0 29 FEB ?", "30 15 12 29 2 *", "59 59 23 29 2 *", "* * * 29 2 *", "0 0 0 29-31 2 *", // 29 February
		"0 0 0 29 2 0", "0 0 0 31 1,3 1", // both day fields restricted: either-day, at least yearly
		"0 0 0 31 2,4,6,9,11 ?", "0 0 0 30 2 *", // never
	}
)

func horizonEra(c int) (from, to int64) {
	return time.Date(c-8, 1, 1, 0, 0, 0, 0, time.UTC).Unix(), time.Date(c+9, 1, 1, 0, 0, 0, 0, time.UTC).Unix()
}

// horizonStarts: start instants for (zone, century year c, spec), ascending.
// Building start instants from calendar fields is fine: they are inputs.
func horizonStarts(zi *zoneInfo, c int, spec string) [][2]int64 {
	loc := zi.z.Loc
	lo, hi := time.Date(c-6, 1, 1, 0, 0, 0, 0, loc), time.Date(c+2, 1, 1, 0, 0, 0, 0, loc)
	var ts []time.Time
	add := func(t time.Time) {
		if !t.Before(lo) && t.Before(hi) {
			ts = append(ts, t)
		}
	}
	ref := cronref.Parse(spec, secondsLayout)
	if ref.Verdict != cronref.Accept {
		panic("horizon spec " + spec)
	}
	// does the schedule ever match in the era? (never-matching ones cost kit
	// ~40 ms per call: a few starts only)
	sc := &cronref.Scanner{Z: zi.z, S: &ref.Sched, Fast: true}
	var matches []int64
	for t := lo; t.Before(hi); {
		a := sc.Next(t)
		if !a.Found {
			t = t.AddDate(1, 0, 0)
			continue
		}
		if len(matches) < 40 {
			matches = append(matches, a.Unix)
		}
		t = time.Unix(a.Unix, 0).In(loc).AddDate(0, 0, 1) // one match per day is enough
		if len(matches) >= 40 {
			break
		}
	}
	if len(matches) == 0 {
		add(time.Date(c-1, 6, 1, 0, 0, 0, 0, loc))
		add(time.Date(c-1, 12, 31, 23, 59, 59, 0, loc))
		add(time.Date(c, 1, 1, 0, 0, 0, 0, loc))
	} else {
		for y := c - 6; y <= c+1; y++ {
			for m := time.January; m <= time.December; m++ {
				add(time.Date(y, m, 1, 0, 0, 0, 0, loc))
				add(time.Date(y, m, 15, 12, 30, 30, 500000000, loc))
			}
			add(time.Date(y, 2, 28, 23, 59, 58, 0, loc))
			add(time.Date(y, 2, 28, 23, 59, 59, 0, loc))
			add(time.Date(y, 2, 28, 23, 59, 59, 500000000, loc))
			add(time.Date(y, 2, 29, 0, 0, 0, 0, loc)) // 1 Mar in common years
			add(time.Date(y, 2, 29, 23, 59, 59, 0, loc))
			add(time.Date(y, 3, 1, 0, 0, 0, 0, loc))
			add(time.Date(y, 3, 1, 0, 0, 1, 0, loc))
			add(time.Date(y, 12, 31, 23, 59, 59, 0, loc))
			add(time.Date(y, 12, 31, 23, 59, 59, 999999999, loc))
		}
		for _, m := range matches {
			M := time.Unix(m, 0).In(loc)
			for _, d := range []time.Duration{-time.Second, 0, time.Second} {
				add(M.Add(d))
				add(M.AddDate(-5, 0, 0).Add(d))
			}
		}
	}
	sort.Slice(ts, func(i, j int) bool { return ts[i].Before(ts[j]) })
	var out [][2]int64
	for i, t := range ts {
		if i > 0 && t.Equal(ts[i-1]) {
			continue
		}
		out = append(out, [2]int64{t.Unix(), int64(t.Nanosecond())})
	}
	return out
}

// ---- skipped / repeated local days ---------------------------------------------------

// Zones that have moved across the date line (or were on the other side of it
// under an earlier administration); missing names are skipped. The jumps
// themselves are found by scanning.
var jumpZoneCandidates = []string{"Pacific/Kiritimati", "Pacific/Enderbury", "Pacific/Kanton", "Pacific/Apia", "Pacific/Fakaofo", "Pacific/Kwajalein", "Pacific/Majuro", "Pacific/Kosrae", "Asia/Manila", "Pacific/Guam", "Pacific/Saipan", "Pacific/Pago_Pago", "Pacific/Midway", "Pacific/Rarotonga", "Pacific/Tongatapu", "Pacific/Niue", "Pacific/Nauru", "Pacific/Tarawa", "Pacific/Chuuk", "Pacific/Pohnpei", "America/Juneau", "America/Sitka", "America/Anchorage", "America/Metlakatla", "America/Yakutat", "America/Nome", "America/Adak", "Asia/Anadyr", "Asia/Kamchatka"}

type jump struct {
	zone          string
	at            int64
	before, after int
}

func findJumps() []jump {
	from, to := time.Date(1840, 1, 1, 0, 0, 0, 0, time.UTC).Unix(), eraTo
	var out []jump
	for _, name := range jumpZoneCandidates {
		loc, err := time.LoadLocation(name)
		if err != nil {
			continue
		}
		z, err := cronref.ScanZone(name, loc, from, to, false) // the era around each jump is cross-checked separately
		if err != nil {
			panic(err)
		}
		for _, tr := range z.Transitions {
			b, a := offsetAt(loc, tr-1), offsetAt(loc, tr)
			if d := a - b; d >= 23*3600 || d <= -23*3600 {
				out = append(out, jump{name, tr, b, a})
			}
		}
	}
	return out
}

func jumpEra(at int64) (from, to int64) { return at - 400*86400, at + 7*366*86400 }

func jumpSpecs(zi *zoneInfo, j jump) []string {
	loc := zi.z.Loc
	lb, la := time.Unix(j.at-1, 0).In(loc), time.Unix(j.at, 0).In(loc)
	except := func(m time.Month) string {
		var ms []string
		for x := 1; x <= 12; x++ {
			if time.Month(x) != m {
				ms = append(ms, fmt.Sprint(x))
			}
		}
		return strings.Join(ms, ",")
	}
	uniq := func(xs ...string) []string {
		seen := map[string]bool{}
		var out []string
		for _, x := range xs {
			if !seen[x] {
				seen[x] = true
				out = append(out, x)
			}
		}
		return out
	}
	months := uniq("*", fmt.Sprint(int(lb.Month())), fmt.Sprint(int(la.Month())), except(la.Month()), except(lb.Month()))
	doms := uniq("*", "1", "1,28-31", "28-31", fmt.Sprint(la.Day()), "*/2")
	dows := uniq("*", "0", "1-5", fmt.Sprint(int(la.Weekday())))
	var out []string
	for _, h := range []string{"0", "*", "12"} {
		for _, d := range doms {
			for _, m := range months {
				for _, w := range dows {
					out = append(out, "0 0 "+h+" "+d+" "+m+" "+w)
				}
			}
		}
	}
	return out
}

func jumpStarts(j jump) [][2]int64 {
	T := time.Unix(j.at, 0).UTC()
	var ts []time.Time
	k := 0
	for d := -40 * 24 * time.Hour; d <= 48*time.Hour; d += 6 * time.Hour {
		t := T.Add(d)
		if k%2 == 1 {
			t = t.Add(500 * time.Millisecond)
		}
		ts = append(ts, t)
		k++
	}
	for d := -6 * time.Hour; d <= 6*time.Hour; d += 30 * time.Minute {
		ts = append(ts, T.Add(d).Add(time.Minute))
	}
	ts = append(ts, T.Add(-time.Second), T)
	sort.Slice(ts, func(a, b int) bool { return ts[a].Before(ts[b]) })
	var out [][2]int64
	for i, t := range ts {
		if i > 0 && t.Equal(ts[i-1]) {
			continue
		}
		out = append(out, [2]int64{t.Unix(), int64(t.Nanosecond())})
	}
	return out
}

// ---- spelled-out full sets in the day pair ---------------------------------------------

func fullSetSpecs() []string {
	fullDom := []string{"1-31", "1-31/1", "1/1", "1-15,16-31", "1,2-31", "1-31/2,2-31/2"}
	fullDow := []string{"0-6", "sun-sat", "SUN-SAT/1", "0/1", "0,1,2,3,4,5,6", "0-3,4-6", "sun,mon,tue,wed,thu,fri,sat"}
	partDom := []string{"13", "1,15", "28-31", "*/2"}
	partDow := []string{"5", "MON-FRI", "0,6", "*/2"}
	var pairs [][2]string
	for _, d := range fullDom {
		for _, w := range partDow {
			pairs = append(pairs, [2]string{d, w})
		}
	}
	for _, w := range fullDow {
		for _, d := range partDom {
			pairs = append(pairs, [2]string{d, w})
		}
	}
	for _, d := range fullDom[:3] {
		for _, w := range fullDow[:3] {
			pairs = append(pairs, [2]string{d, w})
		}
	}
	// controls: the same partners against a real star
	for _, w := range partDow {
		pairs = append(pairs, [2]string{"*", w}, [2]string{"?", w})
	}
	for _, d := range partDom {
		pairs = append(pairs, [2]string{d, "*"}, [2]string{d, "?"})
	}
	var out []string
	for _, h := range []string{"0", "12"} {
		for _, m := range []string{"*", "2"} {
			for _, p := range pairs {
				out = append(out, "0 0 "+h+" "+p[0]+" "+m+" "+p[1])
			}
		}
	}
	return out
}

func fullSetStarts() [][2]int64 {
	var out [][2]int64
	k := 0
	for t := time.Date(2021, 1, 30, 0, 0, 0, 0, time.UTC); t.Before(time.Date(2021, 3, 4, 0, 0, 0, 0, time.UTC)); t = t.Add(3*time.Hour + 7*time.Minute) {
		ns := int64(0)
		if k%2 == 1 {
			ns = 500000000
		}
		out = append(out, [2]int64{t.Unix(), ns})
		k++
	}
	return out
}

// ---- driver side -------------------------------------------------------------

type worker struct {
	cmd *exec.Cmd
	in  io.WriteCloser
	out *bufio.Reader
}

func startWorker() *worker {
	cmd := exec.Command(os.Args[0], "-test.run", "^TestCheck$", "-test.timeout", "0")
	// the worker must not outlive its driver (an orphan would burn CPU forever on a hanging input)
	cmd.SysProcAttr = &syscall.SysProcAttr{Pdeathsig: syscall.SIGKILL}
	cmd.Env = append(os.Environ(), "VERIF_C04_WORKER=1", "GOMAXPROCS=2")
	cmd.Stderr = os.Stderr
	in, err := cmd.StdinPipe()
	if err != nil {
		panic(err)
	}
	o, err := cmd.StdoutPipe()
	if err != nil {
		panic(err)
	}
	if err := cmd.Start(); err != nil {
		panic(err)
	}
	return &worker{cmd: cmd, in: in, out: bufio.NewReaderSize(o, 1<<16)}
}

func (w *worker) stop() {
	w.in.Close()
	w.cmd.Wait()
}

// do sends one request and reads the answer. A worker that reported a hang has
// exited; the caller must start a new one.
func (w *worker) do(q *unitReq) *unitResp {
	b, _ := json.Marshal(q)
	if _, err := w.in.Write(append(b, '\n')); err != nil {
		panic(fmt.Sprintf("worker write: %v", err))
	}
	for {
		line, err := w.out.ReadBytes('\n')
		if err != nil {
			w.cmd.Wait()
			panic(fmt.Sprintf("worker died while evaluating %+v: %v", *q, err))
		}
		if len(line) == 0 || line[0] != '{' {
			continue // test framework chatter
		}
		var r unitResp
		if err := json.Unmarshal(line, &r); err != nil {
			panic(fmt.Sprintf("worker answer %q: %v", line, err))
		}
		return &r
	}
}

// pool runs requests on worker processes, restarting after hangs and resuming
// each unit behind the hang as the group rule says. A hang is believed only
// after it has been confirmed once per key in a fresh worker with a 15 s limit;
// an unconfirmed alarm (slow machine) is retried from the same start.
type pool struct {
	r           *enumx.Run
	mu          sync.Mutex
	mis         map[string]*mismatch
	confirmed   map[string]bool
	probes      int64
	selfChecks  int64
	skipped     int64
	hangs       int64
	restarts    int64
	falseAlarms int64
}

func (pl *pool) run(reqs []unitReq) (done int) {
	var next atomic.Int64
	var completed atomic.Int64
	var wg sync.WaitGroup
	n := runtime.NumCPU()
	if n > len(reqs) {
		n = len(reqs)
	}
	for s := 0; s < n; s++ {
		wg.Add(1)
		go func() {
			defer wg.Done()
			w := startWorker()
			defer func() { w.stop() }()
			for {
				i := int(next.Add(1) - 1)
				if i >= len(reqs) || pl.r.Expired() {
					return
				}
				q := reqs[i]
				for {
					resp := w.do(&q)
					confirmedHang := false
					if resp.Hung {
						w.stop()
						w = startWorker()
						pl.mu.Lock()
						confirmedHang = pl.confirmed[resp.HungCase.Key]
						pl.restarts++
						pl.mu.Unlock()
						if !confirmedHang {
							c := resp.HungCase.C
							cq := unitReq{Zone: c.Zone, Spec: c.Spec, Kind: "single", Unix: c.Unix, Nanos: c.Nanos, LimitMs: 15000}
							cr := w.do(&cq)
							if cr.Hung {
								w.stop()
								w = startWorker()
								confirmedHang = true
								pl.mu.Lock()
								pl.confirmed[resp.HungCase.Key] = true
								pl.mu.Unlock()
							}
						}
					}
					pl.mu.Lock()
					for _, m := range resp.Mis {
						merge(pl.mis, m)
					}
					pl.probes += resp.Probes
					pl.selfChecks += resp.SelfChecks
					switch {
					case confirmedHang:
						merge(pl.mis, resp.HungCase)
						pl.skipped += resp.Skipped
						pl.hangs++
						resp.N++
						resp.NT++
					case resp.Hung:
						pl.falseAlarms++ // slow machine, not a hang: try again from the same start
					}
					pl.mu.Unlock()
					pl.r.Count(resp.N, resp.NT)
					if !resp.Hung {
						break
					}
					if confirmedHang {
						q.FromG, q.FromI = resp.NextG, resp.NextI
					} else {
						q.FromG, q.FromI = resp.CurG, resp.CurI
					}
				}
				completed.Add(1)
			}
		}()
	}
	wg.Wait()
	return int(completed.Load())
}

// ---- the part -----------------------------------------------------------------

func run(r *enumx.Run, replay *enumx.ReplayCase) {
	if replay != nil {
		var c rcase
		if err := json.Unmarshal(replay.Case, &c); err != nil {
			panic(err)
		}
		w := startWorker()
		q := unitReq{Zone: c.Zone, Spec: c.Spec, Kind: "single", Unix: c.Unix, Nanos: c.Nanos, LimitMs: 15000}
		if strings.HasPrefix(c.Spec, "@every ") {
			q.Kind, q.Spec = "every", strings.TrimPrefix(c.Spec, "@every ")
		}
		resp := w.do(&q)
		w.stop()
		for _, m := range resp.Mis {
			r.Violation(m.Key, m.Msg, m.C)
		}
		if resp.Hung {
			r.Violation(resp.HungCase.Key, resp.HungCase.Msg, resp.HungCase.C)
		}
		return
	}

	wide, window := wideQuick, windowQuick
	gridMod := 4
	rareMod := 16
	if r.Thorough() {
		wide, window = wideThorough, windowThorough
		gridMod = 2
		rareMod = 8
	}
	if !subset(wideQuick, wideThorough) || !subset(windowQuick, windowThorough) || !subset(windowThorough, wideThorough) {
		panic("menu inclusion broken: quick must explore a subset of thorough")
	}
	r.Rule("next: each case is one (schedule, zone, start instant) triple: kit's Next(t) against the reference scan of absolute time. Schedules: full product of a term menu per field. Start instants per zone: a regular grid 2005-2030 (step 97d5h43m17.25s) for the wide menu, and for the window menu every 7 minutes from -50h to +4h around every UTC-offset change of the zone in 2005-2024 (alternating whole-second and half-second starts, plus the instant itself and one second before). Also @every durations x starts (closed form) and rarely/never matching schedules for the five-year horizon, a family of day pairs in which a field spells out its whole range without '*' / '?' (restricted whatever its values: either-day rule with a restricted partner), a family around every UTC-offset change of at least 23 h (a skipped or repeated local day) of the date-line zones 1840-2037, and a boundary family (29 February schedules - the only ones of this dialect with gaps of more than a year - from starts in the years around 1900, 2000, 2100, 2200, 2400 in four zones). Horizon oracle: with M the reference's earliest match, kit must return M if M <= t+5 calendar years (t.AddDate(5,0,0) on the zone's wall clock, inclusive: 'within five years'); must return the zero time if no match exists up to the end of calendar year year(t+1s)+5 (the documented search bound of the implementation: 'if no time is found within five years, return zero', searched to the end of that calendar year); and may return either M or the zero time when M is more than five years after t but still inside calendar year year(t+1s)+5 - the statement (zero: none within five years) and the unchanged implementation (returns M) differ there, and nothing is claimed. A case is non-trivial when the answer is not simply the next second. A call of Next that does not return within 5 s (confirmed once per key with 15 s) is a violation; the remaining starts of that window before the transition (then: of that window) are not tried for that schedule and are counted as skipped.")

	// zones
	zis := make([]*zoneInfo, len(zoneNames))
	errs := make([]error, len(zoneNames))
	r.Parallel(len(zoneNames), func(i int) { zis[i], errs[i] = loadZone(zoneNames[i], true) })
	fp := sha256.New()
	zoneFacts := map[string]any{}
	all15 := true
	for i, zi := range zis {
		if errs[i] != nil || zi == nil {
			panic(fmt.Sprintf("zone %s: %v", zoneNames[i], errs[i]))
		}
		nIn := 0
		for _, tr := range zi.z.Transitions {
			if tr >= windowsFrom && tr < windowsTo {
				fmt.Fprintf(fp, "%s %d %d\n", zi.name, tr, offsetAt(zi.z.Loc, tr))
				nIn++
			}
		}
		un := []string{}
		for _, u := range zi.z.UnalignedTransitions {
			un = append(un, time.Unix(u, 0).UTC().Format(time.RFC3339))
		}
		all15 = all15 && zi.z.AllOffsets15m
		zoneFacts[zi.name] = map[string]any{"offset_changes_2005_2024": nIn, "offset_changes_in_scanned_era": len(zi.z.Transitions), "offsets_s": zi.z.Offsets, "all_offsets_multiple_of_15m": zi.z.AllOffsets15m, "changes_not_on_a_utc_quarter_hour": un, "window_starts": zi.nWin}
	}
	r.Set("zones", zoneFacts)
	r.Set("all_zone_offsets_multiple_of_15m", all15)
	r.Set("tz_transitions_fingerprint_2005_2024", fmt.Sprintf("%x", fp.Sum(nil))[:16])

	pl := &pool{r: r, mis: map[string]*mismatch{}, confirmed: map[string]bool{}}
	gridN := func(mod, rem int) int {
		n := 0
		for i := range zis[0].grid {
			if i%mod == rem {
				n++
			}
		}
		return n
	}
	phaseWall := map[string]float64{}
	phase := func(desc string, reqs []unitReq) {
		t0 := time.Now()
		if r.Expired() {
			r.Incomplete(desc + ": not started, budget used up")
			return
		}
		done := pl.run(reqs)
		phaseWall[strings.SplitN(desc, " ", 2)[0]] = time.Since(t0).Seconds()
		if done < len(reqs) {
			r.Incomplete(fmt.Sprintf("%s: %d of %d (schedule, zone) units", desc, done, len(reqs)))
		} else {
			r.Space(desc)
		}
	}

	// A. window menu x zones x transition windows (the dense part, first)
	{
		var reqs []unitReq
		nStarts, nZ := 0, 0
		for _, zi := range zis {
			if len(zi.wins) > 0 {
				nZ++
				nStarts += zi.nWin
			}
		}
		for s := 0; s < window.size(); s++ {
			for _, zi := range zis {
				if len(zi.wins) > 0 {
					reqs = append(reqs, unitReq{ID: len(reqs), Zone: zi.name, Spec: window.spec(s), Kind: "win"})
				}
			}
		}
		phase(fmt.Sprintf("window menu (%d schedules: %v) x %d zones with offset changes x all window starts (%d per schedule)", window.size(), window, nZ, nStarts), reqs)
	}
	// B. wide menu x zones x grid
	{
		var reqs []unitReq
		for s := 0; s < wide.size(); s++ {
			for _, zi := range zis {
				reqs = append(reqs, unitReq{ID: len(reqs), Zone: zi.name, Spec: wide.spec(s), Kind: "grid", Mod: gridMod, Rem: 0})
			}
		}
		phase(fmt.Sprintf("wide menu (%d schedules: %v) x %d zones x regular grid (%d instants)", wide.size(), wide, len(zis), gridN(gridMod, 0)), reqs)
	}
	// C. five-year horizon: schedules that match rarely or never
	{
		var reqs []unitReq
		for _, s := range rareSchedules {
			for _, zi := range zis {
				reqs = append(reqs, unitReq{ID: len(reqs), Zone: zi.name, Spec: s, Kind: "grid", Mod: rareMod, Rem: 4})
			}
		}
		phase(fmt.Sprintf("horizon: %d rarely/never matching schedules %v x %d zones x %d grid instants", len(rareSchedules), rareSchedules, len(zis), gridN(rareMod, 4)), reqs)
	}
	// C2. five-year horizon, boundaries: Feb-29 schedules (the only ones of this
	// dialect with gaps of more than a year: 8 years across a non-leap century
	// year) and never/yearly matching ones, from starts placed around every boundary
	{
		var reqs []unitReq
		nStarts := 0
		type job struct {
			zi   *zoneInfo
			c    int
			spec string
		}
		var jobs []job
		hz := make([]*zoneInfo, len(horizonZones)*len(horizonCenturies))
		herr := make([]error, len(hz))
		r.Parallel(len(hz), func(i int) {
			c := horizonCenturies[i%len(horizonCenturies)]
			from, to := horizonEra(c)
			hz[i], herr[i] = loadZoneEra(horizonZones[i/len(horizonCenturies)], from, to, true)
		})
		for i, zi := range hz {
			if herr[i] != nil {
				panic(herr[i])
			}
			if zi == nil { // budget used up before the zones were scanned
				continue
			}
			for _, sp := range horizonSpecs {
				jobs = append(jobs, job{zi, horizonCenturies[i%len(horizonCenturies)], sp})
			}
		}
		built := make([]unitReq, len(jobs))
		r.Parallel(len(jobs), func(i int) {
			j := jobs[i]
			from, to := horizonEra(j.c)
			built[i] = unitReq{Zone: j.zi.name, Spec: j.spec, Kind: "list", EraFrom: from, EraTo: to, Starts: horizonStarts(j.zi, j.c, j.spec)}
		})
		for i := range built {
			built[i].ID = i
			nStarts += len(built[i].Starts)
			reqs = append(reqs, built[i])
		}
		phase(fmt.Sprintf("horizon-boundaries: %d schedules %v x zones %v x start years C-6..C+1 for C in %v (first and middle of every month, the seconds around 28 Feb/1 Mar, 29 Feb and the year end, and around every match M: M-1s, M, M+1s and M.AddDate(-5,0,0) -1s/+0/+1s); %d (schedule, zone, start) cases", len(horizonSpecs), horizonSpecs, horizonZones, horizonCenturies, nStarts), reqs)
	}
	// C3. skipped / repeated local days: every UTC-offset change of at least 23 h
	// of the date-line zones, 1840-2037
	{
		jumps := findJumps()
		jz := make([]*zoneInfo, len(jumps))
		jerr := make([]error, len(jumps))
		r.Parallel(len(jumps), func(i int) {
			from, to := jumpEra(jumps[i].at)
			jz[i], jerr[i] = loadZoneEra(jumps[i].zone, from, to, true)
		})
		var reqs []unitReq
		var descs []string
		nCases := 0
		for i, j := range jumps {
			if jerr[i] != nil {
				panic(jerr[i])
			}
			if jz[i] == nil { // budget used up before the zones were scanned
				continue
			}
			from, to := jumpEra(j.at)
			specs := jumpSpecs(jz[i], j)
			starts := jumpStarts(j)
			descs = append(descs, fmt.Sprintf("%s %s (%+dh)", j.zone, time.Unix(j.at, 0).UTC().Format(time.RFC3339), (j.after-j.before)/3600))
			for _, sp := range specs {
				reqs = append(reqs, unitReq{ID: len(reqs), Zone: j.zone, Spec: sp, Kind: "list", EraFrom: from, EraTo: to, Starts: starts})
				nCases += len(starts)
			}
		}
		r.Set("day_jumps", descs)
		phase(fmt.Sprintf("day-jumps: %d offset changes of >= 23 h found by scanning %d date-line zones over 1840-2037, each x up to 360 schedules (month: *, the month before / after the jump, every month but that one; dom: *, 1, 1+28-31, 28-31, the day after the jump, odd days; dow: *, 0, 1-5, the weekday after the jump; hour: 0, *, 12) x starts from 40 days before to 2 days after (every 6 h, every 30 min within 6 h, the instant and one second before); %d cases", len(jumps), len(jumpZoneCandidates), nCases), reqs)
	}
	// C4. spelled-out full sets in the day pair: a day field written without
	// '*' / '?' is restricted whatever its values, so with a restricted partner
	// the either-day rule applies ("0 0 0 13 * sun-sat" fires every day)
	{
		specs := fullSetSpecs()
		starts := fullSetStarts()
		var reqs []unitReq
		zs := []string{"UTC", "+05:30", "America/New_York", "Europe/London"}
		for _, sp := range specs {
			for _, z := range zs {
				reqs = append(reqs, unitReq{ID: len(reqs), Zone: z, Spec: sp, Kind: "list", Starts: starts})
			}
		}
		phase(fmt.Sprintf("full-sets: %d schedules (hour 0 / 12, month * / 2; dom x dow pairs in which one or both fields spell out their whole range as lo-hi, lo-hi/1, lo/1, the list, abutting ranges or names, the partner being a value, list, range or step) x zones %v x %d starts over 2021-01-30..2021-03-04 (every 3h7m, alternating .0/.5 s): %d cases", len(specs), zs, len(starts), len(specs)*len(zs)*len(starts)), reqs)
	}
	// D. @every
	{
		var reqs []unitReq
		for _, zi := range zis {
			reqs = append(reqs, unitReq{ID: len(reqs), Zone: zi.name, Kind: "every", Mod: gridMod, Rem: 0})
		}
		phase(fmt.Sprintf("@every: %d durations %v x %d zones (location of t) x %d grid instants x 4 sub-second offsets, closed form", len(everyDurations), everyDurations, len(zis), gridN(gridMod, 0)), reqs)
	}

	r.Set("reference_instants_probed", pl.probes)
	r.Set("reference_fast_vs_plain_self_checks", pl.selfChecks)
	r.Set("calls_that_did_not_return", pl.hangs)
	r.Set("starts_not_tried_after_a_call_that_did_not_return", pl.skipped)
	r.Set("worker_restarts", pl.restarts)
	r.Set("phase_wall_s", phaseWall)
	r.Set("time_limit_alarms_not_confirmed_(retried)", pl.falseAlarms)
	r.Sample(map[string]any{"zone": "America/New_York", "spec": "0 30 2 * * *", "start": "2012-03-11T05:00:00Z", "reference": "2012-03-12T02:30:00-04:00 (02:30 does not occur on the spring-forward day)"})
	r.Sample(map[string]any{"zone": "Australia/Lord_Howe", "spec": "0 45 1 * * *", "start": "window around a 30-minute shift", "reference": "first of the two 01:45 readings on the fall-back day"})

	keys := make([]string, 0, len(pl.mis))
	for k := range pl.mis {
		keys = append(keys, k)
	}
	sort.Strings(keys)
	classes := map[string]int{}
	for _, k := range keys {
		e := pl.mis[k]
		extra := fmt.Sprintf("[%d cases with this key; first by (spec, start) shown", e.N)
		if e.Hung > 0 {
			extra += fmt.Sprintf("; in %d of them Next did not return", e.Hung)
		}
		r.Violation(k, e.Msg+"  "+extra+"]", e.C)
		classes[strings.SplitN(classify(k, zis), ":", 2)[0]]++
	}
	r.Set("finding_keys_by_class", classes)
	if os.Getenv("VERIF_C04_KEYS") != "" {
		// development aid: dump "known:" candidate lines
		var sb strings.Builder
		for _, k := range keys {
			e := pl.mis[k]
			fmt.Fprintf(&sb, "known: property=C04 key=%s :: %s; %s [%d cases", k, classify(k, zis), e.Msg, e.N)
			if e.Hung > 0 {
				fmt.Fprintf(&sb, ", %d without return", e.Hung)
			}
			sb.WriteString("]\n")
		}
		os.WriteFile(os.Getenv("VERIF_C04_KEYS"), []byte(sb.String()), 0o644)
	}
}

func offsetAt(loc *time.Location, u int64) int {
	_, off := time.Unix(u, 0).In(loc).Zone()
	return off
}

// classify a finding key by the kind of transition it sits at (for the notes).
func classify(key string, zis []*zoneInfo) string {
	if strings.HasPrefix(key, "every;") {
		return "@every"
	}
	if strings.Contains(key, ";sub-minute-offset") {
		return "(vi) zone offset not a whole minute (local mean time era)"
	}
	if !strings.Contains(key, ";transition=") {
		return "no-transition"
	}
	parts := strings.SplitN(key, ";transition=", 2)
	name := strings.TrimPrefix(parts[0], "zone=")
	tr, err := time.Parse(time.RFC3339, strings.SplitN(parts[1], ";", 2)[0])
	if err != nil {
		return "?"
	}
	var locs []*time.Location
	for _, zi := range zis {
		if zi.name == name {
			locs = append(locs, zi.z.Loc)
		}
	}
	if len(locs) == 0 {
		if l, err := time.LoadLocation(name); err == nil {
			locs = append(locs, l)
		}
	}
	for _, loc := range locs {
		u := tr.Unix()
		before, after := offsetAt(loc, u-1), offsetAt(loc, u)
		shift := after - before
		lb := time.Unix(u, 0).In(time.FixedZone("", before)) // wall clock reading at which the change happens
		whole := shift%3600 == 0 && lb.Minute() == 0 && lb.Second() == 0
		desc := fmt.Sprintf("%s local %+dm", lb.Format("Mon 15:04"), shift/60)
		switch {
		case shift >= 23*3600 || shift <= -23*3600:
			return "(iv) whole local day skipped/repeated: " + desc
		case !whole:
			return "(i) shift or local instant not a whole hour: " + desc
		case shift > 0:
			if lb.Hour() == 0 || lb.Add(time.Duration(shift)*time.Second).Day() != lb.Day() {
				return "(ii) gap swallowing local midnight: " + desc
			}
			return "(v) whole-hour gap not at midnight: " + desc
		default:
			return "(iii) overlap (wall time repeated): " + desc
		}
	}
	return "?"
}
