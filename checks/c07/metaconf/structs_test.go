package metaconf

import (
	"fmt"

	"github.com/dapr/kit/config"
	"github.com/dapr/kit/metadata"

	"verif/checks/c07/guard"
)

// Struct-shaped inputs: DecodeMetadata has a path for "the caller passed the
// metadata struct instead of the properties map" (a field named Properties),
// and every entry point of this part takes `any`. This family hands them
// structs (and pointers to, nil pointers to, pointers to pointers to, and
// pointers to interfaces holding structs) whose Properties field - exact,
// differently cased, unexported, promoted from an embedded struct (by value,
// by pointer, by nil pointer, through an unexported struct), absent - has
// every type of a type alphabet, with small contents.

type NS string // a defined string type

type props map[string]string

type Inner2[M any] struct{ Properties M }
type inner2[M any] struct{ Properties M }

type sExact[M any] struct {
	Name       string
	Properties M
}
type sOnly[M any] struct{ Properties M }
type sUpper[M any] struct{ PROPERTIES M }
type sCamel[M any] struct{ ProPerties M }
type sUnexported[M any] struct{ properties M }
type sAbsent[M any] struct{ Other M }
type sEmbedded[M any] struct{ Inner2[M] }
type sEmbeddedPtr[M any] struct{ *Inner2[M] }
type sEmbeddedUnexp[M any] struct{ inner2[M] }
type sEmbeddedUnexpPtr[M any] struct{ *inner2[M] }
type sShadow[M any] struct {
	Inner2[M]
	Properties string
}
type sTagged[M any] struct {
	Properties M      `mapstructure:"props" json:"p"`
	String     string `mapstructure:"string"`
}

// shapes wraps m in every struct shape and every indirection.
func shapes[M any](tn, cn string, m M) []namedVal {
	structs := []namedVal{
		{"struct{Name string; Properties M}", sExact[M]{"n", m}},
		{"struct{Properties M}", sOnly[M]{m}},
		{"struct{PROPERTIES M}", sUpper[M]{m}},
		{"struct{ProPerties M}", sCamel[M]{m}},
		{"struct{properties M}", sUnexported[M]{m}},
		{"struct{Other M}", sAbsent[M]{m}},
		{"struct{Inner{Properties M}}", sEmbedded[M]{Inner2[M]{m}}},
		{"struct{*Inner{Properties M}}", sEmbeddedPtr[M]{&Inner2[M]{m}}},
		{"struct{*Inner(nil)}", sEmbeddedPtr[M]{nil}},
		{"struct{inner{Properties M}}", sEmbeddedUnexp[M]{inner2[M]{m}}},
		{"struct{*inner{Properties M}}", sEmbeddedUnexpPtr[M]{&inner2[M]{m}}},
		{"struct{*inner(nil)}", sEmbeddedUnexpPtr[M]{nil}},
		{"struct{Inner{Properties M}; Properties string}", sShadow[M]{Inner2[M]{m}, "s"}},
		{"struct{Properties M `mapstructure:props`; String string}", sTagged[M]{m, "x"}},
	}
	var out []namedVal
	for _, s := range structs {
		name := fmt.Sprintf("%s with M=%s %s", s.name, tn, cn)
		out = append(out, namedVal{name, s.v})
	}
	// indirections of the two most relevant shapes
	e := sExact[M]{"n", m}
	pe := &e
	var ae any = e
	var ape any = pe
	o := sOnly[M]{m}
	po := &o
	out = append(out,
		namedVal{fmt.Sprintf("&struct{Name; Properties M} with M=%s %s", tn, cn), pe},
		namedVal{fmt.Sprintf("&&struct{Name; Properties M} with M=%s %s", tn, cn), &pe},
		namedVal{fmt.Sprintf("&any(struct{Name; Properties M}) with M=%s %s", tn, cn), &ae},
		namedVal{fmt.Sprintf("&any(&struct{Name; Properties M}) with M=%s %s", tn, cn), &ape},
		namedVal{fmt.Sprintf("&struct{Properties M} with M=%s %s", tn, cn), po},
		namedVal{fmt.Sprintf("[]any{struct{Properties M}} with M=%s %s", tn, cn), []any{o}},
		namedVal{fmt.Sprintf("map[string]any{Properties: M} with M=%s %s", tn, cn), map[string]any{"Properties": m}},
	)
	return out
}

// nilShapes: nil pointers to the struct shapes (content-independent).
func nilShapes[M any](tn string) []namedVal {
	var pe *sExact[M]
	var po *sOnly[M]
	var ae any = pe
	return []namedVal{
		{"(*struct{Name; Properties M})(nil) with M=" + tn, pe},
		{"(*struct{Properties M})(nil) with M=" + tn, po},
		{"&(*struct{Name; Properties M})(nil) with M=" + tn, &pe},
		{"&any((*struct)(nil)) with M=" + tn, &ae},
	}
}

// mapType enumerates the contents of one map type.
func mapType[K comparable, V any, M ~map[K]V](tn string, k func(string) K, v func(string) V) []namedVal {
	var out []namedVal
	out = append(out, nilShapes[M](tn)...)
	var nilMap M
	out = append(out, shapes(tn, "nil", nilMap)...)
	out = append(out, shapes(tn, "{}", M{})...)
	out = append(out, shapes(tn, "{a:b}", M{k("a"): v("b")})...)
	out = append(out, shapes(tn, "{string:x, dur:1h, size:1Ki}", M{k("string"): v("x"), k("dur"): v("1h"), k("size"): v("1Ki")})...)
	out = append(out, shapes(tn, "{STRING:x, string:y}", M{k("STRING"): v("x"), k("string"): v("y")})...)
	return out
}

func other[M any](tn string, vals map[string]M) []namedVal {
	var out []namedVal
	out = append(out, nilShapes[M](tn)...)
	for _, cn := range sortedKeys(vals) {
		out = append(out, shapes(tn, cn, vals[cn])...)
	}
	return out
}

func sortedKeys[M any](m map[string]M) []string {
	var ks []string
	for k := range m {
		ks = append(ks, k)
	}
	for i := range ks {
		for j := i + 1; j < len(ks); j++ {
			if ks[j] < ks[i] {
				ks[i], ks[j] = ks[j], ks[i]
			}
		}
	}
	return ks
}

type structFamily struct {
	name string
	gen  func() []namedVal
}

func id(s string) string { return s }

func structFamilies() []structFamily {
	str := "s"
	mss := map[string]string{"string": "x"}
	return []structFamily{
		{"map[string]string", func() []namedVal { return mapType[string, string, map[string]string]("map[string]string", id, id) }},
		{"metadata.Properties", func() []namedVal {
			return mapType[string, string, metadata.Properties]("metadata.Properties", id, id)
		}},
		{"props(defined map[string]string)", func() []namedVal { return mapType[string, string, props]("props", id, id) }},
		{"map[string]NS", func() []namedVal {
			return mapType[string, NS, map[string]NS]("map[string]NS", id, func(s string) NS { return NS(s) })
		}},
		{"map[NS]string", func() []namedVal {
			return mapType[NS, string, map[NS]string]("map[NS]string", func(s string) NS { return NS(s) }, id)
		}},
		{"map[NS]NS", func() []namedVal {
			return mapType[NS, NS, map[NS]NS]("map[NS]NS", func(s string) NS { return NS(s) }, func(s string) NS { return NS(s) })
		}},
		{"map[string]any", func() []namedVal {
			return mapType[string, any, map[string]any]("map[string]any", id, func(s string) any { return s })
		}},
		{"map[string]int", func() []namedVal {
			return mapType[string, int, map[string]int]("map[string]int", id, func(s string) int { return len(s) })
		}},
		{"map[any]any", func() []namedVal {
			return mapType[any, any, map[any]any]("map[any]any", func(s string) any { return s }, func(s string) any { return s })
		}},
		{"map[string][]byte", func() []namedVal {
			return mapType[string, []byte, map[string][]byte]("map[string][]byte", id, func(s string) []byte { return []byte(s) })
		}},
		{"map[string]*string", func() []namedVal {
			return mapType[string, *string, map[string]*string]("map[string]*string", id, func(s string) *string { return &s })
		}},
		{"map[int]string", func() []namedVal {
			return mapType[int, string, map[int]string]("map[int]string", func(s string) int { return len(s) }, id)
		}},
		{"map[string]map[string]string", func() []namedVal {
			return mapType[string, map[string]string, map[string]map[string]string]("map[string]map[string]string", id, func(s string) map[string]string { return map[string]string{s: s} })
		}},
		{"string", func() []namedVal {
			return other("string", map[string]string{"empty": "", "x": "x", "json": `{"string":"x"}`})
		}},
		{"int", func() []namedVal { return other("int", map[string]int{"0": 0, "7": 7}) }},
		{"[]string", func() []namedVal { return other("[]string", map[string][]string{"nil": nil, "a": {"a"}}) }},
		{"func()", func() []namedVal { return other("func()", map[string]func(){"nil": nil, "f": func() {}}) }},
		{"chan int", func() []namedVal { return other("chan int", map[string]chan int{"nil": nil, "c": make(chan int)}) }},
		{"*map[string]string", func() []namedVal {
			return other("*map[string]string", map[string]*map[string]string{"nil": nil, "ptr": &mss})
		}},
		{"*string", func() []namedVal { return other("*string", map[string]*string{"nil": nil, "ptr": &str}) }},
		{"any", func() []namedVal {
			return other("any", map[string]any{"nil": nil, "map[string]string": mss, "map[string]NS": map[string]NS{"string": "x"}, "props": props{"a": "b"}, "int": 3})
		}},
		{"struct{}", func() []namedVal { return other("struct{}", map[string]struct{}{"zero": {}}) }},
		{"struct{Properties map[string]NS}", func() []namedVal {
			return other("struct{Properties map[string]NS}", map[string]sOnly[map[string]NS]{"nested": {map[string]NS{"a": "b"}}})
		}},
	}
}

type resultKind struct {
	name string
	mk   func() any
}

var mdResults = []resultKind{
	{"*struct", func() any { return &mdTarget{} }},
	{"**struct", func() any { var p *mdTarget; return &p }},
	{"*map[string]any", func() any { m := map[string]any{}; return &m }},
	{"*map[string]string", func() any { m := map[string]string{}; return &m }},
	{"(*map[string]string)(nil-map)", func() any { var m map[string]string; return &m }},
	{"nil", func() any { return nil }},
	{"struct (non-pointer)", func() any { return mdTarget{} }},
	{"map (non-pointer)", func() any { return map[string]any{} }},
	{"(*struct)(nil)", func() any { return (*mdTarget)(nil) }},
	{"*int", func() any { i := 0; return &i }},
	{"*any", func() any { var a any; return &a }},
	{"string", func() any { return "s" }},
}

func structInputsArea() *guard.Area {
	fams := structFamilies()
	var names []string
	for _, f := range fams {
		names = append(names, f.name)
	}
	var rn []string
	for _, r := range mdResults {
		rn = append(rn, r.name)
	}
	return &guard.Area{
		Name: "struct-inputs", Chunks: len(fams),
		Bound: fmt.Sprintf("DecodeMetadata, config.Decode, Normalize, PrefixedBy on structs with a Properties field (exact, with a sibling field, upper-cased, camel-cased, unexported, absent, promoted from an embedded struct by value / pointer / nil pointer / unexported struct / unexported pointer, shadowed, tagged), as value, pointer, pointer to pointer, pointer to interface, nil pointer, inside a slice and as a map member; field types %v; contents nil / empty / one entry / three entries matching target fields / case-duplicate keys; result arguments %v", names, rn),
		Run: func(c *guard.Ctx, ci int) {
			for _, in := range fams[ci].gen() {
				in := in
				for _, r := range mdResults {
					r := r
					d := func() string { return fmt.Sprintf("input=%s result=%s", in.name, r.name) }
					var err error
					c.Call("metadata.DecodeMetadata", d, func() { err = metadata.DecodeMetadata(in.v, r.mk()) })
					if err == nil {
						c.NonTrivial(1)
					}
					c.Call("config.Decode", d, func() { err = config.Decode(in.v, r.mk()) })
					if err == nil {
						c.NonTrivial(1)
					}
				}
				d := func() string { return "input=" + in.name }
				c.Call("config.Normalize", d, func() { config.Normalize(in.v) })
				c.Call("config.PrefixedBy", d, func() { config.PrefixedBy(in.v, "Prop"); config.PrefixedBy(in.v, "") })
			}
			// result kinds also for plain map inputs and for Properties.Decode
			if ci == 0 {
				for _, r := range mdResults {
					r := r
					for _, in := range []namedVal{{"map[string]string{string:x}", map[string]string{"string": "x"}}, {"map[string]string{}", map[string]string{}}, {"nil", nil}, {"map[string]any{string:1}", map[string]any{"string": 1}}} {
						in := in
						d := func() string { return fmt.Sprintf("input=%s result=%s", in.name, r.name) }
						c.Call("metadata.DecodeMetadata", d, func() { metadata.DecodeMetadata(in.v, r.mk()) })
						c.Call("config.Decode", d, func() { config.Decode(in.v, r.mk()) })
						if m, ok := in.v.(map[string]string); ok {
							c.Call("metadata.Properties.Decode", d, func() { metadata.Properties(m).Decode(r.mk()) })
						}
					}
				}
			}
		},
	}
}
