// Package metaconf is the C07 part for metadata.DecodeMetadata (and its
// duration / truthy-bool / string-array / byte-size hooks), config.Decode,
// config.Normalize and config.PrefixedBy.
package metaconf

import (
	"encoding/json"
	"fmt"
	"strings"
	"testing"
	"time"

	"github.com/dapr/kit/config"
	"github.com/dapr/kit/metadata"

	"verif/checks/c07/guard"
)

const rule = "metadata/config: DecodeMetadata and config.Decode into a struct with one field of every supported kind (scalars, pointers, durations, metadata.Duration, duration and string slices, byte sizes, time, custom StringDecoder, nested / squashed / pointer-to structs, maps, interfaces, aliased fields) on EVERY map with one entry and every map with two entries over (field names incl. upper-case and alias spellings and an unknown key) x (value alphabet: nil, \"\", x, 1, -1, 1.5, true, 1h, 1Ki, huge numbers, huge exponents, lists, nested maps and slices, wrong kinds incl. typed nil pointers, pointers, channels, funcs) [quick: pairs over a core of 12 names x 14 values], in 7 input container kinds; Normalize / PrefixedBy on every tree of depth <= 3 over 9 node kinds; Duration.UnmarshalJSON / ToISOString and ByteSize.GetBytes on token alphabets. struct-inputs: structs (values, pointers, pointers to pointers, pointers to interfaces, nil pointers, slice and map members) with a Properties field of every type of a 23-type alphabet (map[string]string, defined map types, maps with defined string key / element types, other maps, nil maps, non-map kinds) in 14 shapes (exact, other case, unexported, absent, promoted through embedded value / pointer / nil pointer / unexported struct, shadowed, tagged) x 12 result arguments (struct and map pointers, nil, non-pointers, nil pointer, *int, *any) into DecodeMetadata, config.Decode, Normalize, PrefixedBy. non-trivial = nil error."

// ---- targets --------------------------------------------------------------------

type Inner struct {
	A string `mapstructure:"a"`
	N int    `mapstructure:"n"`
}

type Squashed struct {
	Emb      string `mapstructure:"emb"`
	EmbAlias string `mapstructure:"embalias" mapstructurealiases:"embalias2,embalias3"`
}

type mdTarget struct {
	Squashed `mapstructure:",squash"`

	String    string             `mapstructure:"string"`
	StringPtr *string            `mapstructure:"stringptr"`
	Bool      bool               `mapstructure:"bool"`
	BoolPtr   *bool              `mapstructure:"boolptr"`
	Int       int                `mapstructure:"int"`
	Int8      int8               `mapstructure:"int8"`
	Int64Ptr  *int64             `mapstructure:"int64ptr"`
	Uint      uint               `mapstructure:"uint"`
	Uint8     uint8              `mapstructure:"uint8"`
	Float32   float32            `mapstructure:"float32"`
	Float64   float64            `mapstructure:"float64"`
	Dur       time.Duration      `mapstructure:"dur"`
	DurPtr    *time.Duration     `mapstructure:"durptr"`
	MDur      metadata.Duration  `mapstructure:"mdur"`
	MDurPtr   *metadata.Duration `mapstructure:"mdurptr"`
	Durs      []time.Duration    `mapstructure:"durs"`
	DursPtr   *[]time.Duration   `mapstructure:"dursptr"`
	Strs      []string           `mapstructure:"strs"`
	StrsPtr   *[]string          `mapstructure:"strsptr"`
	Ints      []int              `mapstructure:"ints"`
	Bytes     []byte             `mapstructure:"bytes"`
	Size      metadata.ByteSize  `mapstructure:"size"`
	SizePtr   *metadata.ByteSize `mapstructure:"sizeptr"`
	Map       map[string]string  `mapstructure:"map"`
	MapAny    map[string]any     `mapstructure:"mapany"`
	Any       any                `mapstructure:"any"`
	Nested    Inner              `mapstructure:"nested"`
	NestedPtr *Inner             `mapstructure:"nestedptr"`
	Aliased   string             `mapstructure:"aliased" mapstructurealiases:"alias2,alias3"`
	AliasedD  time.Duration      `mapstructure:"aliasedd" mapstructurealiases:"aliasedd2"`
	Time      time.Time          `mapstructure:"time"`
	Arr       [2]int             `mapstructure:"arr"`
	NoTag     string
	unexp     string `mapstructure:"unexp"` //nolint
}

type Dec int

func (d *Dec) DecodeString(s string) error {
	if s == "x" {
		return fmt.Errorf("bad")
	}
	*d = Dec(len(s))
	return nil
}

type cfgTarget struct {
	String     string         `mapstructure:"string"`
	StringPtr  *string        `mapstructure:"stringptr"`
	Bool       bool           `mapstructure:"bool"`
	BoolPtr    *bool          `mapstructure:"boolptr"`
	Int        int            `mapstructure:"int"`
	IntPtr     *int           `mapstructure:"intptr"`
	Int8       int8           `mapstructure:"int8"`
	Int16      int16          `mapstructure:"int16"`
	Int32      int32          `mapstructure:"int32"`
	Int64      int64          `mapstructure:"int64"`
	Uint       uint           `mapstructure:"uint"`
	Uint8      uint8          `mapstructure:"uint8"`
	Uint16     uint16         `mapstructure:"uint16"`
	Uint32     uint32         `mapstructure:"uint32"`
	Uint64     uint64         `mapstructure:"uint64"`
	Uint64Ptr  *uint64        `mapstructure:"uint64ptr"`
	Float32    float32        `mapstructure:"float32"`
	Float64    float64        `mapstructure:"float64"`
	Float64Ptr *float64       `mapstructure:"float64ptr"`
	Dur        time.Duration  `mapstructure:"dur"`
	DurPtr     *time.Duration `mapstructure:"durptr"`
	Time       time.Time      `mapstructure:"time"`
	TimePtr    *time.Time     `mapstructure:"timeptr"`
	Dec        Dec            `mapstructure:"dec"`
	DecPtr     *Dec           `mapstructure:"decptr"`
	Nested     Inner          `mapstructure:"nested"`
	NestedPtr  *Inner         `mapstructure:"nestedptr"`
	Squashed   `mapstructure:",squash"`
	Strs       []string          `mapstructure:"strs"`
	Ints       []int             `mapstructure:"ints"`
	Durs       []time.Duration   `mapstructure:"durs"`
	Map        map[string]string `mapstructure:"map"`
	MapInt     map[string]int    `mapstructure:"mapint"`
	Any        any               `mapstructure:"any"`
	Arr        [2]int            `mapstructure:"arr"`
}

// ---- alphabets --------------------------------------------------------------------

type namedVal struct {
	name string
	v    any
}

func sp(s string) *string { return &s }
func ip(i int) *int       { return &i }

var values = []namedVal{
	{"nil", nil}, {`""`, ""}, {`"x"`, "x"}, {`"1"`, "1"}, {`"-1"`, "-1"}, {`"1.5"`, "1.5"}, {`"true"`, "true"}, {`"1h"`, "1h"}, {`"1Ki"`, "1Ki"},
	{`"99999999999999999999"`, "99999999999999999999"}, {`"1e999999999"`, "1e999999999"}, {`"1E2147483648"`, "1E2147483648"}, {`"9223372036854775807h"`, "9223372036854775807h"},
	{`"1,2"`, "1,2"}, {`"1h,,x"`, "1h,,x"}, {`" 5 "`, " 5 "}, {`"0x10"`, "0x10"}, {`"2024-02-29T23:59:59Z"`, "2024-02-29T23:59:59Z"}, {`"-0"`, "-0"}, {`"NaN"`, "NaN"}, {`"٣"`, "٣"}, {`"9223372036854775808"`, "9223372036854775808"},
	{"int 1", 1}, {"int -1", -1}, {"int64 max", int64(1<<63 - 1)}, {"uint64 max", ^uint64(0)}, {"float 1.5", 1.5}, {"float 1e300", 1e300}, {"bool", true},
	{"time.Duration", time.Hour}, {"json.Number", json.Number("12")}, {"[]byte", []byte("1")},
	{"[]any{1,\"x\"}", []any{1, "x"}}, {"[]string", []string{"1h", "x"}}, {"[]any{}", []any{}}, {"[]any{nil}", []any{nil}},
	{"map[string]any{a:1}", map[string]any{"a": 1, "n": "x"}}, {"map[string]string", map[string]string{"a": "1"}}, {"map[any]any", map[any]any{1: 2, "a": "b"}}, {"nested map/slice", map[string]any{"a": []any{map[string]any{"b": nil}}}},
	{"struct{}", struct{}{}}, {"*string", sp("1h")}, {"*int", ip(3)}, {"(*string)(nil)", (*string)(nil)}, {"(*int)(nil)", (*int)(nil)}, {"**string", func() **string { p := sp("1"); return &p }()},
	{"chan", make(chan int)}, {"func", func() {}}, {"time.Time", time.Unix(0, 0)}, {"complex", complex(1, 2)},
}

// quantityValues: scientific-notation quantities derived from the grammar
// mantissa (E|e) [+|-] digits [suffix], with exponents at and beyond the int32
// edges — used in one-entry maps only (a seeded change showed that an explicit
// '+' sign was not in the alphabet).
var quantityValues = func() []namedVal {
	var out []namedVal
	for _, m := range []string{"1", "1.5", "0", ""} {
		for _, e := range []string{"E", "e"} {
			for _, sg := range []string{"", "+", "-", "+-", "++"} {
				for _, x := range []string{"0", "3", "18", "19", "308", "2147483647", "2147483648", "4294967296", "9999999999", "0003000000000", ""} {
					for _, suf := range []string{"", "Ki", "m"} {
						v := m + e + sg + x + suf
						out = append(out, namedVal{fmt.Sprintf("%q", v), v})
					}
				}
			}
		}
	}
	return out
}()

var coreValues = map[string]bool{"nil": true, `""`: true, `"x"`: true, `"1"`: true, `"-1"`: true, `"1.5"`: true, `"true"`: true, `"1h"`: true, `"1Ki"`: true, `"99999999999999999999"`: true,
	"int 1": true, "[]any{1,\"x\"}": true, "map[string]any{a:1}": true, "(*string)(nil)": true}

var mdNames = []string{"string", "stringptr", "bool", "boolptr", "int", "int8", "int64ptr", "uint", "uint8", "float32", "float64", "dur", "durptr", "mdur", "mdurptr", "durs", "dursptr", "strs", "strsptr", "ints", "bytes", "size", "sizeptr", "map", "mapany", "any", "nested", "nestedptr", "aliased", "alias2", "ALIAS3", "aliasedd", "aliasedd2", "time", "arr", "emb", "embalias", "embalias2", "NoTag", "unexp", "STRING", "Dur", "unknown", ""}
var cfgNames = []string{"string", "stringptr", "bool", "boolptr", "int", "intptr", "int8", "int16", "int32", "int64", "uint", "uint8", "uint16", "uint32", "uint64", "uint64ptr", "float32", "float64", "float64ptr", "dur", "durptr", "time", "timeptr", "dec", "decptr", "nested", "nestedptr", "emb", "embalias", "strs", "ints", "durs", "map", "mapint", "any", "arr", "STRING", "unknown", ""}
var coreNames = map[string]bool{"string": true, "bool": true, "boolptr": true, "int": true, "dur": true, "mdurptr": true, "durs": true, "strsptr": true, "size": true, "nested": true, "aliased": true, "alias2": true,
	"intptr": true, "time": true, "dec": true, "decptr": true, "uint8": true}

type entry struct {
	k string
	v namedVal
}

func descEntries(es []entry) string {
	var p []string
	for _, e := range es {
		p = append(p, fmt.Sprintf("%q: %s", e.k, e.v.name))
	}
	return "{" + strings.Join(p, ", ") + "}"
}

// containers builds the different input shapes for the same entries.
var mdContainers = []string{"map[string]any", "map[string]string", "map[any]any", "JSON string", "struct{Properties map[string]string}", "struct{Properties map[string]any}", "struct{Properties metadata.Properties}"}

func stringable(v any) (string, bool) {
	switch x := v.(type) {
	case string:
		return x, true
	}
	return "", false
}

func container(kind string, es []entry) (any, bool) {
	switch kind {
	case "map[string]any":
		m := map[string]any{}
		for _, e := range es {
			m[e.k] = e.v.v
		}
		return m, true
	case "map[any]any":
		m := map[any]any{}
		for _, e := range es {
			m[e.k] = e.v.v
		}
		return m, true
	case "map[string]string", "struct{Properties map[string]string}", "struct{Properties metadata.Properties}":
		m := map[string]string{}
		for _, e := range es {
			s, ok := stringable(e.v.v)
			if !ok {
				return nil, false
			}
			m[e.k] = s
		}
		if kind == "map[string]string" {
			return m, true
		}
		if kind == "struct{Properties metadata.Properties}" {
			return struct{ Properties metadata.Properties }{m}, true
		}
		return struct {
			Name       string
			Properties map[string]string
		}{"n", m}, true
	case "struct{Properties map[string]any}":
		m := map[string]any{}
		for _, e := range es {
			m[e.k] = e.v.v
		}
		return struct{ Properties map[string]any }{m}, true
	case "JSON string":
		m := map[string]any{}
		for _, e := range es {
			m[e.k] = e.v.v
		}
		b, err := json.Marshal(m)
		if err != nil {
			return nil, false
		}
		return string(b), true
	}
	return nil, false
}

func decodeMD(c *guard.Ctx, es []entry) {
	for _, kind := range mdContainers {
		in, ok := container(kind, es)
		if !ok {
			continue
		}
		kind := kind
		d := func() string { return fmt.Sprintf("input=%s%s", kind, descEntries(es)) }
		var err error
		var t mdTarget
		c.Call("metadata.DecodeMetadata", d, func() { err = metadata.DecodeMetadata(in, &t) })
		if err == nil {
			c.NonTrivial(1)
			c.Call("metadata.ByteSize.GetBytes", d, func() { t.Size.GetBytes(); t.SizePtr.GetBytes() })
			c.Call("metadata.Duration.ToISOString/MarshalJSON", d, func() { t.MDur.ToISOString(); t.MDur.MarshalJSON() })
		}
		var tp *mdTarget
		c.Call("metadata.DecodeMetadata(**struct)", d, func() { metadata.DecodeMetadata(in, &tp) })
	}
	if m, ok := container("map[string]string", es); ok {
		var t mdTarget
		c.Call("metadata.Properties.Decode", func() string { return descEntries(es) }, func() { metadata.Properties(m.(map[string]string)).Decode(&t) })
		c.Call("metadata.GetMetadataProperty", func() string { return descEntries(es) }, func() {
			metadata.GetMetadataProperty(m.(map[string]string), "STRING", "alias2", "")
			metadata.GetMetadataPropertyWithMatchedKey(m.(map[string]string))
		})
	}
}

func decodeCfg(c *guard.Ctx, es []entry) {
	for _, kind := range []string{"map[string]any", "map[any]any", "map[string]string"} {
		in, ok := container(kind, es)
		if !ok {
			continue
		}
		kind := kind
		d := func() string { return fmt.Sprintf("input=%s%s", kind, descEntries(es)) }
		var err error
		var t cfgTarget
		c.Call("config.Decode", d, func() { err = config.Decode(in, &t) })
		if err == nil {
			c.NonTrivial(1)
		}
		c.Call("config.Normalize", d, func() { config.Normalize(in) })
		c.Call("config.PrefixedBy", d, func() { config.PrefixedBy(in, "str"); config.PrefixedBy(in, "") })
		if kind == "map[any]any" {
			var n any
			c.Call("config.Normalize+Decode", d, func() {
				n, err = config.Normalize(in)
				if err == nil {
					var t2 cfgTarget
					config.Decode(n, &t2)
				}
			})
		}
	}
}

// ---- trees for Normalize --------------------------------------------------------------

var leafKinds = []string{"nil", "string", "int", "[]string", "map[string]string", "struct"}

func trees(depth int) []namedVal {
	out := []namedVal{{"nil", nil}, {`"s"`, "s"}, {"1", 1}, {"[]string", []string{"a"}}, {"map[string]string", map[string]string{"a": "b"}}, {"struct{}", struct{}{}}}
	if depth == 0 {
		return out
	}
	sub := trees(depth - 1)
	for _, s := range sub {
		s := s
		out = append(out,
			namedVal{"map[any]any{\"k\":" + s.name + "}", map[any]any{"k": s.v}},
			namedVal{"map[any]any{1:" + s.name + "}", map[any]any{1: s.v}},
			namedVal{"map[any]any{nil:" + s.name + "}", map[any]any{nil: s.v}},
			namedVal{"map[string]any{\"K\":" + s.name + "}", map[string]any{"K": s.v}},
			namedVal{"[]any{" + s.name + "}", []any{s.v}},
			namedVal{"[]any{" + s.name + ",1}", []any{s.v, 1}},
		)
	}
	return out
}

// ---- areas --------------------------------------------------------------------------------

func pairArea(name string, names []string, thorough bool, f func(c *guard.Ctx, es []entry)) *guard.Area {
	return &guard.Area{
		Name: name, Chunks: len(names) + 1,
		Bound: fmt.Sprintf("every one-entry map over %d key spellings x (%d values + the scientific-notation quantity grammar); every two-entry map over the same (quick: over the core of 12 names x 14 values); the empty map", len(names), len(values)),
		Run: func(c *guard.Ctx, ci int) {
			if ci == len(names) {
				f(c, nil)
				// every field set to the same value
				for _, v := range values {
					var es []entry
					for _, n := range names {
						es = append(es, entry{n, v})
					}
					f(c, es)
				}
				return
			}
			k1 := names[ci]
			for _, v1 := range values {
				f(c, []entry{{k1, v1}})
				for j := ci + 1; j < len(names); j++ {
					k2 := names[j]
					for _, v2 := range values {
						if !thorough && !(coreNames[k1] && coreNames[k2] && coreValues[v1.name] && coreValues[v2.name]) {
							continue
						}
						f(c, []entry{{k1, v1}, {k2, v2}})
					}
				}
				// same key in two spellings (duplicate after lower-casing)
				f(c, []entry{{k1, v1}, {strings.ToUpper(k1), v1}})
			}
			for _, v1 := range quantityValues {
				f(c, []entry{{k1, v1}})
			}
		},
	}
}

func areas(thorough bool) []*guard.Area {
	depth := 2
	if thorough {
		depth = 3
	}
	tr := trees(depth)
	durToks := []string{``, `null`, `0`, `1`, `-1`, `1.5`, `1e300`, `-1e300`, `1e999`, `"1h"`, `""`, `"x"`, `"-9223372036854775808ns"`, `true`, `[]`, `{}`, `"`, `1 `, `99999999999999999999`, `"\u0000"`}
	durs := []time.Duration{0, 1, -1, time.Second, -time.Second, 59 * time.Second, time.Minute, time.Hour, 24 * time.Hour, 25*time.Hour + 61*time.Second, 1<<63 - 1, -1 << 63, 999 * time.Millisecond, -999 * time.Millisecond}
	return []*guard.Area{
		structInputsArea(),
		pairArea("metadata-decode", mdNames, thorough, decodeMD),
		pairArea("config-decode", cfgNames, thorough, decodeCfg),
		{
			Name: "config-normalize-trees", Chunks: 1,
			Bound: fmt.Sprintf("Normalize and PrefixedBy on every tree of depth <= %d over 6 leaf kinds and 6 inner node kinds (map[any]any with string / int / nil key, map[string]any, 1- and 2-element slices): %d trees (finite trees only: configuration maps come out of a YAML/JSON parser)", depth, len(tr)),
			Run: func(c *guard.Ctx, _ int) {
				for _, t := range tr {
					t := t
					d := func() string { return t.name }
					var err error
					c.Call("config.Normalize", d, func() { _, err = config.Normalize(t.v) })
					if err == nil {
						c.NonTrivial(1)
					}
					c.Call("config.PrefixedBy", d, func() { config.PrefixedBy(t.v, "K") })
					var ct cfgTarget
					c.Call("config.Decode", d, func() { config.Decode(t.v, &ct) })
					var mt mdTarget
					c.Call("metadata.DecodeMetadata", d, func() { metadata.DecodeMetadata(t.v, &mt) })
				}
			},
		},
		{
			Name: "metadata-duration-bytesize", Chunks: 1,
			Bound: fmt.Sprintf("Duration.UnmarshalJSON on %d JSON tokens; Duration.ToISOString/MarshalJSON on %d durations incl. the int64 extremes; NewByteSize/GetBytes on int64 extremes and a nil receiver", len(durToks), len(durs)),
			Run: func(c *guard.Ctx, _ int) {
				for _, t := range durToks {
					t := t
					var err error
					c.Call("metadata.Duration.UnmarshalJSON", func() string { return fmt.Sprintf("%q", t) }, func() { var d metadata.Duration; err = d.UnmarshalJSON([]byte(t)) })
					if err == nil {
						c.NonTrivial(1)
					}
					c.Call("metadata.Duration(json.Unmarshal)", func() string { return fmt.Sprintf("%q", t) }, func() { var d metadata.Duration; json.Unmarshal([]byte(t), &d) })
				}
				for _, x := range durs {
					x := x
					c.Call("metadata.Duration.ToISOString/MarshalJSON", func() string { return fmt.Sprint(int64(x)) }, func() {
						d := metadata.Duration{Duration: x}
						d.ToISOString()
						d.MarshalJSON()
					})
					c.NonTrivial(1)
				}
				for _, n := range []int64{0, 1, -1, 1<<63 - 1, -1 << 63} {
					n := n
					c.Call("metadata.NewByteSize/GetBytes", func() string { return fmt.Sprint(n) }, func() {
						b := metadata.NewByteSize(n)
						b.GetBytes()
						var np *metadata.ByteSize
						np.GetBytes()
					})
					c.NonTrivial(1)
				}
			},
		},
	}
}

func TestCheck(t *testing.T) { guard.Main(t, "C07", "metadata-config", areas, rule) }
