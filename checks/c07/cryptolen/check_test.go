// Package cryptolen is the C07 part for the byte-argument lengths of kit's
// crypto entry points: padding, aeskw, aescbcaead and crypto.{Encrypt,Decrypt,
// EncryptSymmetric,DecryptSymmetric,EncryptPublicKey,DecryptPrivateKey,
// SignPrivateKey,VerifyPublicKey} under every algorithm name.
package cryptolen

import (
	"crypto/aes"
	"crypto/cipher"
	"crypto/ecdh"
	"crypto/ecdsa"
	"crypto/ed25519"
	"crypto/hmac"
	"crypto/rsa"
	"crypto/sha256"
	"crypto/sha512"
	"crypto/x509"
	"encoding/base64"
	"encoding/binary"
	"encoding/pem"
	"fmt"
	"hash"
	"strings"
	"testing"

	"github.com/lestrrat-go/jwx/v2/jwk"

	kcrypto "github.com/dapr/kit/crypto"
	"github.com/dapr/kit/crypto/aescbcaead"
	"github.com/dapr/kit/crypto/aeskw"
	"github.com/dapr/kit/crypto/padding"

	"verif/checks/c07/guard"
	"verif/checks/c07/kc"
)

const rule = "crypto-lengths: every length 0..64 (plus 65,117,118,127,128,129,256) of each byte argument (plaintext/ciphertext/digest, nonce, tag/signature, associated data, symmetric key), one argument at a time and for symmetric algorithms also every (data length x nonce length) and (data length x tag length) pair over 0..40 (thorough 0..64), in 3-5 content classes (zero bytes, 0xf0.. counting bytes, a valid value cut or zero-extended to the length, for CBC-HMAC a re-computed valid tag over the altered ciphertext), for every algorithm name of crypto/consts.go (+4 non-names) x 8 crypto entry points x 12 key kinds; aeskw.Wrap/Unwrap for AES-128/192/256 on every length 0..72 x 5 content classes; aescbcaead New*(key length 0..64), Seal (16-byte nonce only: a wrong-size Seal nonce is the excluded documented misuse) and Open (nonce length 0..64 x ciphertext length 0..96 x {zero tag, valid tag}); padding Pad/Unpad on every length 0..64 x every last-byte value x 12 block sizes. non-trivial = the call returned a nil error."

var lengths = func() []int {
	var l []int
	for i := 0; i <= 64; i++ {
		l = append(l, i)
	}
	return append(l, 65, 117, 118, 127, 128, 129, 256)
}()

func mustP8(s string) any {
	b, _ := pem.Decode([]byte(s))
	k, err := x509.ParsePKCS8PrivateKey(b.Bytes)
	if err != nil {
		panic(err)
	}
	return k
}

type keyKind struct {
	name string
	key  jwk.Key
}

func mustJWK(raw any) jwk.Key {
	k, err := jwk.FromRaw(raw)
	if err != nil {
		panic(err)
	}
	return k
}

func fixedKeys() []keyKind {
	r := mustP8(pkcs8RSA1024).(*rsa.PrivateKey)
	p256 := mustP8(pkcs8ECP256).(*ecdsa.PrivateKey)
	p384 := mustP8(pkcs8ECP384).(*ecdsa.PrivateKey)
	p521 := mustP8(pkcs8ECP521).(*ecdsa.PrivateKey)
	ed := mustP8(pkcs8Ed25519).(ed25519.PrivateKey)
	xk := mustP8(pkcs8X25519).(*ecdh.PrivateKey)
	xjs := fmt.Sprintf(`{"kty":"OKP","crv":"X25519","x":%q,"d":%q}`, base64.RawURLEncoding.EncodeToString(xk.PublicKey().Bytes()), base64.RawURLEncoding.EncodeToString(xk.Bytes()))
	xj, err := jwk.ParseKey([]byte(xjs))
	if err != nil {
		panic(err)
	}
	return []keyKind{
		{"rsa1024-private", mustJWK(r)}, {"rsa1024-public", mustJWK(&r.PublicKey)},
		{"p256-private", mustJWK(p256)}, {"p256-public", mustJWK(&p256.PublicKey)},
		{"p384-private", mustJWK(p384)}, {"p521-private", mustJWK(p521)}, {"p521-public", mustJWK(&p521.PublicKey)},
		{"ed25519-private", mustJWK(ed)}, {"ed25519-public", mustJWK(ed.Public())},
		{"x25519-private", xj},
	}
}

// ---- RFC 7518 section 5.2.2.1 tag, written from the RFC ----------------------

func cbcHmacTag(alg string, key, aad, iv, ct []byte) []byte {
	var h func() hash.Hash
	var macLen, tLen int
	switch {
	case strings.HasSuffix(alg, "HS256"):
		h, macLen, tLen = sha256.New, 16, 16
	case strings.HasSuffix(alg, "HS384"):
		h, macLen, tLen = sha512.New384, 24, 24
	case strings.HasSuffix(alg, "HS512"):
		h, macLen, tLen = sha512.New, 32, 32
	default:
		return nil
	}
	if len(key) < macLen {
		return nil
	}
	m := hmac.New(h, key[:macLen])
	m.Write(aad)
	m.Write(iv)
	m.Write(ct)
	var al [8]byte
	binary.BigEndian.PutUint64(al[:], uint64(len(aad))*8)
	m.Write(al[:])
	return m.Sum(nil)[:tLen]
}

// ---- content classes -----------------------------------------------------------

func cutTo(valid []byte, n int) []byte {
	out := make([]byte, n)
	copy(out, valid)
	return out
}

type args struct {
	data, nonce, tag, aad []byte
	keyLen                int // -1: the fixed key of the key kind
}

// ---- areas ---------------------------------------------------------------------

func areas(thorough bool) []*guard.Area {
	return []*guard.Area{paddingArea(), aeskwArea(), aeadArea(), cryptoArea(thorough)}
}

func paddingArea() *guard.Area {
	sizes := []int{-1, 0, 1, 2, 3, 8, 16, 32, 255, 256, 257, 1 << 31}
	return &guard.Area{
		Name: "padding", Chunks: len(sizes),
		Bound: fmt.Sprintf("PadPKCS7 (buffer length 0..64, with and without spare capacity) and UnpadPKCS7 (length 0..64 x last byte 0..255 x {zero body, body filled with the last byte}) x block sizes %v", sizes),
		Run: func(c *guard.Ctx, ci int) {
			size := sizes[ci]
			for n := 0; n <= 64; n++ {
				for _, spare := range []int{0, 300} {
					buf := make([]byte, n, n+spare)
					var err error
					c.Call("padding.PadPKCS7", func() string { return fmt.Sprintf("len=%d cap=%d size=%d", n, n+spare, size) }, func() { _, err = padding.PadPKCS7(buf, size) })
					if err == nil {
						c.NonTrivial(1)
					}
				}
				for last := 0; last < 256; last++ {
					for _, fill := range []bool{false, true} {
						if n == 0 && (last > 0 || fill) {
							continue
						}
						buf := make([]byte, n)
						if fill {
							for i := range buf {
								buf[i] = byte(last)
							}
						}
						if n > 0 {
							buf[n-1] = byte(last)
						}
						var err error
						c.Call("padding.UnpadPKCS7", func() string { return fmt.Sprintf("len=%d last=%d filled=%v size=%d", n, last, fill, size) }, func() { _, err = padding.UnpadPKCS7(buf, size) })
						if err == nil {
							c.NonTrivial(1)
						}
					}
				}
			}
		},
	}
}

func aeskwArea() *guard.Area {
	keyLens := []int{16, 24, 32}
	classes := []string{"zero", "a6", "ff", "count", "valid-cut"}
	return &guard.Area{
		Name: "aeskw", Chunks: len(keyLens),
		Bound: "aeskw.Wrap and aeskw.Unwrap with AES-128/192/256 on every input length 0..72 x content classes {zero, 0xA6.. (the RFC 3394 IV), 0xff, counting, a valid wrapping cut or zero-extended to the length}",
		Run: func(c *guard.Ctx, ci int) {
			block, err := aes.NewCipher(kc.Fill(keyLens[ci], 1))
			if err != nil {
				panic(err)
			}
			valid, err := aeskw.Wrap(block, kc.Fill(64, 9))
			if err != nil {
				panic(err)
			}
			for n := 0; n <= 72; n++ {
				for _, cl := range classes {
					var in []byte
					switch cl {
					case "zero":
						in = make([]byte, n)
					case "a6":
						in = []byte(strings.Repeat("\xa6", n))
					case "ff":
						in = []byte(strings.Repeat("\xff", n))
					case "count":
						in = kc.Fill(n, 0xf0)
					case "valid-cut":
						in = cutTo(valid, n)
					}
					d := func() string { return fmt.Sprintf("aes=%d len=%d class=%s bytes=%s", keyLens[ci]*8, n, cl, kc.Hex(in)) }
					var err error
					c.Call("aeskw.Wrap", d, func() { _, err = aeskw.Wrap(block, in) })
					if err == nil {
						c.NonTrivial(1)
					}
					c.Call("aeskw.Unwrap", d, func() { _, err = aeskw.Unwrap(block, in) })
					if err == nil {
						c.NonTrivial(1)
					}
				}
			}
		},
	}
}

type ctor struct {
	name   string
	alg    string
	keyLen int
	f      func([]byte) (cipher.AEAD, error)
}

func aeadArea() *guard.Area {
	ctors := []ctor{
		{"NewAESCBC128SHA256", "A128CBC-HS256", 32, aescbcaead.NewAESCBC128SHA256},
		{"NewAESCBC192SHA384", "A192CBC-HS384", 48, aescbcaead.NewAESCBC192SHA384},
		{"NewAESCBC256SHA384", "", 56, aescbcaead.NewAESCBC256SHA384},
		{"NewAESCBC256SHA512", "A256CBC-HS512", 64, aescbcaead.NewAESCBC256SHA512},
	}
	return &guard.Area{
		Name: "aescbcaead", Chunks: len(ctors),
		Bound: "aescbcaead.New* on key lengths 0..64,128; Seal with the 16-byte nonce on plaintext length 0..64 x aad length {0,1,64} x dst {nil, full, spare capacity}; Open on nonce length 0..64 x ciphertext length 0..96 x {zero tag, valid RFC 7518 tag over the given nonce and ciphertext} x dst variants; NonceSize/Overhead",
		Run: func(c *guard.Ctx, ci int) {
			ct := ctors[ci]
			for _, n := range append(lengths[:65], 128) {
				var err error
				c.Call("aescbcaead."+ct.name, func() string { return fmt.Sprintf("keylen=%d", n) }, func() { _, err = ct.f(kc.Fill(n, 1)) })
				if err == nil {
					c.NonTrivial(1)
				}
			}
			key := kc.Fill(ct.keyLen, 1)
			aead, err := ct.f(key)
			if err != nil {
				panic(err)
			}
			c.Call("aescbcaead.NonceSize/Overhead", func() string { return ct.name }, func() { aead.NonceSize(); aead.Overhead() })
			dsts := []struct {
				name string
				mk   func() []byte
			}{
				{"nil", func() []byte { return nil }},
				{"len3cap3", func() []byte { return make([]byte, 3) }},
				{"len3cap400", func() []byte { return make([]byte, 3, 400) }},
			}
			nonce := kc.Fill(16, 7)
			for _, d := range dsts {
				for n := 0; n <= 64; n++ {
					for _, al := range []int{0, 1, 64} {
						c.Call("aescbcaead.Seal", func() string { return fmt.Sprintf("%s dst=%s noncelen=16 ptlen=%d aadlen=%d", ct.name, d.name, n, al) }, func() {
							aead.Seal(d.mk(), nonce, kc.Fill(n, 2), kc.Fill(al, 3))
						})
						c.NonTrivial(1)
					}
				}
			}
			// the mac key per RFC 7518 is the first half of the key; for the
			// 256/384 variant kit documents a 24-byte mac key
			macLen := ct.keyLen / 2
			var hf func() hash.Hash
			switch ct.name {
			case "NewAESCBC128SHA256":
				hf = sha256.New
			case "NewAESCBC192SHA384":
				hf = sha512.New384
			case "NewAESCBC256SHA384":
				hf, macLen = sha512.New384, 24
			default:
				hf = sha512.New
			}
			tagLen := aead.Overhead()
			validTag := func(aad, iv, body []byte) []byte {
				m := hmac.New(hf, key[:macLen])
				m.Write(aad)
				m.Write(iv)
				m.Write(body)
				var al [8]byte
				binary.BigEndian.PutUint64(al[:], uint64(len(aad))*8)
				m.Write(al[:])
				return m.Sum(nil)[:tagLen]
			}
			aad := []byte("aad")
			for _, d := range dsts {
				for nl := 0; nl <= 64; nl++ {
					iv := kc.Fill(nl, 7)
					for cl := 0; cl <= 96; cl++ {
						for _, tagClass := range []string{"zero", "valid"} {
							in := kc.Fill(cl, 5)
							if tagClass == "valid" && cl >= tagLen {
								copy(in[cl-tagLen:], validTag(aad, iv, in[:cl-tagLen]))
							} else if tagClass == "valid" {
								continue
							}
							var err error
							c.Call("aescbcaead.Open", func() string {
								return fmt.Sprintf("%s dst=%s noncelen=%d ctlen=%d(incl. %d-byte tag) tag=%s", ct.name, d.name, nl, cl, tagLen, tagClass)
							}, func() { _, err = aead.Open(d.mk(), iv, in, aad) })
							if err == nil {
								c.NonTrivial(1)
							}
						}
					}
				}
			}
		},
	}
}

// ---- crypto.* --------------------------------------------------------------------

type fnDef struct {
	name string
	// which args the function takes
	usesNonce, usesTag, usesAAD bool
	call                        func(alg string, k jwk.Key, a args) error
	// produce, for class "valid-cut", a valid (data, tag) for Decrypt/Verify style functions
	decryptLike bool
}

var fns = []fnDef{
	{"crypto.Encrypt", true, false, true, func(alg string, k jwk.Key, a args) error {
		_, _, err := kcrypto.Encrypt(a.data, alg, k, a.nonce, a.aad)
		return err
	}, false},
	{"crypto.Decrypt", true, true, true, func(alg string, k jwk.Key, a args) error {
		_, err := kcrypto.Decrypt(a.data, alg, k, a.nonce, a.tag, a.aad)
		return err
	}, true},
	{"crypto.EncryptSymmetric", true, false, true, func(alg string, k jwk.Key, a args) error {
		_, _, err := kcrypto.EncryptSymmetric(a.data, alg, k, a.nonce, a.aad)
		return err
	}, false},
	{"crypto.DecryptSymmetric", true, true, true, func(alg string, k jwk.Key, a args) error {
		_, err := kcrypto.DecryptSymmetric(a.data, alg, k, a.nonce, a.tag, a.aad)
		return err
	}, true},
	{"crypto.EncryptPublicKey", false, false, true, func(alg string, k jwk.Key, a args) error {
		_, err := kcrypto.EncryptPublicKey(a.data, alg, k, a.aad)
		return err
	}, false},
	{"crypto.DecryptPrivateKey", false, false, true, func(alg string, k jwk.Key, a args) error {
		_, err := kcrypto.DecryptPrivateKey(a.data, alg, k, a.aad)
		return err
	}, true},
	{"crypto.SignPrivateKey", false, false, false, func(alg string, k jwk.Key, a args) error {
		_, err := kcrypto.SignPrivateKey(a.data, alg, k)
		return err
	}, false},
	{"crypto.VerifyPublicKey", false, true, false, func(alg string, k jwk.Key, a args) error {
		_, err := kcrypto.VerifyPublicKey(a.data, a.tag, alg, k)
		return err
	}, true},
}

func cryptoArea(thorough bool) *guard.Area {
	algs := kc.AllAlgs
	pairMax := 40
	if thorough {
		pairMax = 64
	}
	return &guard.Area{
		Name: "crypto-args", Chunks: len(algs),
		Bound: fmt.Sprintf("%d algorithm names x 8 entry points x (10 asymmetric keys + symmetric keys of the natural size and of every length 1..64): each byte argument at every length in %v, others at their natural size; symmetric natural key: also all (data x nonce) and (data x tag) length pairs over 0..%d", len(algs), "0..64,65,117,118,127,128,129,256", pairMax),
		Run: func(c *guard.Ctx, ci int) {
			alg := algs[ci]
			fixed := fixedKeys()
			natKeyLen := kc.SymKeyLen(alg)
			if natKeyLen == 0 {
				natKeyLen = 32
			}
			natKeyBytes := kc.Fill(natKeyLen, 1)
			kinds := append([]keyKind{{fmt.Sprintf("oct%d", natKeyLen), mustJWK(natKeyBytes)}}, fixed...)
			nat := args{data: kc.Fill(32, 1), nonce: kc.Fill(kc.NonceLen(alg), 7), tag: kc.Fill(kc.TagLen(alg), 0), aad: []byte("aad")}
			if strings.HasPrefix(alg, "ES") || strings.HasPrefix(alg, "RS") || strings.HasPrefix(alg, "PS") || strings.HasPrefix(alg, "HS") {
				nat.data = kc.Fill(kc.DigestLen(alg), 3)
			}
			for ki, kk := range kinds {
				// valid material for the decrypt-like functions under this key
				var vct, vtag, vsig, vpk []byte
				func() {
					defer func() { recover() }()
					vct, vtag, _ = kcrypto.Encrypt(nat.data, alg, kk.key, nat.nonce, nat.aad)
					if vct == nil {
						vct, vtag, _ = kcrypto.EncryptSymmetric(nat.data, alg, kk.key, nat.nonce, nat.aad)
					}
					vsig, _ = kcrypto.SignPrivateKey(nat.data, alg, kk.key)
					vpk, _ = kcrypto.EncryptPublicKey(nat.data, alg, kk.key, nat.aad)
				}()
				for _, fn := range fns {
					fn := fn
					base := nat
					if fn.decryptLike {
						switch fn.name {
						case "crypto.VerifyPublicKey":
							if vsig != nil {
								base.tag = vsig
							} else {
								base.tag = make([]byte, 64)
							}
						case "crypto.DecryptPrivateKey":
							if vpk != nil {
								base.data = vpk
							} else {
								base.data = make([]byte, 128)
							}
						default:
							if vct != nil {
								base.data, base.tag = vct, vtag
							}
						}
					}
					run := func(what string, a args) {
						var err error
						c.Call(fn.name, func() string {
							return fmt.Sprintf("alg=%q key=%s vary=%s data=%s nonce=%s tag/sig=%s aadlen=%d", alg, kk.name, what, kc.Hex(a.data), kc.Hex(a.nonce), kc.Hex(a.tag), len(a.aad))
						}, func() { err = fn.call(alg, kk.key, a) })
						if err == nil {
							c.NonTrivial(1)
						}
					}
					run("natural", base)
					vary := func(field string, get func(*args) *[]byte) {
						for _, n := range lengths {
							for _, cl := range []string{"zero", "count", "valid-cut"} {
								a := base
								p := get(&a)
								switch cl {
								case "zero":
									*p = make([]byte, n)
								case "count":
									*p = kc.Fill(n, 0xf0)
								case "valid-cut":
									*p = cutTo(*get(&base), n)
								}
								run(fmt.Sprintf("%s:len=%d:%s", field, n, cl), a)
								if field == "data" && fn.usesTag && strings.Contains(alg, "-HS") && ki == 0 {
									// valid tag over the altered ciphertext (needs the key: only an
									// insider can build it, but it is a well-formed input)
									a.tag = cbcHmacTag(alg, natKeyBytes, a.aad, a.nonce, a.data)
									run(fmt.Sprintf("%s:len=%d:%s+remac", field, n, cl), a)
								}
							}
						}
					}
					vary("data", func(a *args) *[]byte { return &a.data })
					if fn.usesNonce {
						vary("nonce", func(a *args) *[]byte { return &a.nonce })
					}
					if fn.usesTag {
						vary("tag", func(a *args) *[]byte { return &a.tag })
					}
					if fn.usesAAD {
						vary("aad", func(a *args) *[]byte { return &a.aad })
					}
					if ki == 0 && fn.usesNonce {
						for dl := 0; dl <= pairMax; dl++ {
							for nl := 0; nl <= pairMax; nl++ {
								a := base
								a.data, a.nonce = cutTo(base.data, dl), kc.Fill(nl, 7)
								run(fmt.Sprintf("data:len=%d x nonce:len=%d", dl, nl), a)
								if fn.usesTag {
									a = base
									a.data, a.tag = cutTo(base.data, dl), cutTo(base.tag, nl)
									run(fmt.Sprintf("data:len=%d x tag:len=%d", dl, nl), a)
								}
							}
						}
					}
				}
			}
			// symmetric keys of every length (the key is a byte argument too)
			for n := 1; n <= 64; n++ {
				k, err := jwk.FromRaw(kc.Fill(n, 1))
				if err != nil {
					continue
				}
				for _, fn := range fns {
					fn := fn
					var err error
					c.Call(fn.name, func() string { return fmt.Sprintf("alg=%q key=oct:len=%d natural arguments", alg, n) }, func() { err = fn.call(alg, k, nat) })
					if err == nil {
						c.NonTrivial(1)
					}
				}
			}
		},
	}
}

func TestCheck(t *testing.T) { guard.Main(t, "C07", "crypto-lengths", areas, rule) }
