// Package guard is the C07-local driver: it runs every call of an enumeration
// in worker subprocesses (re-exec of the test binary) under recover(), with a
// shared-memory "in flight" marker so that a death of the worker (fatal error,
// stack overflow, out of memory, panic in a background goroutine) or a call
// that never returns is attributed to the exact input that was running.
//
// A part is
//
//	func TestCheck(t *testing.T) { guard.Main(t, "C07", "<part>", areas) }
//
// where areas(thorough) lists the sub-spaces. Every Area is cut into chunks; a
// chunk is the unit handed to a worker. Inside a chunk the area calls
// c.Call(entry, describe, fn) once per case, in a deterministic order.
package guard

import (
	"bufio"
	"encoding/json"
	"fmt"
	"io"
	"os"
	"os/exec"
	"os/signal"
	"path/filepath"
	"regexp"
	"runtime"
	"sort"
	"strconv"
	"strings"
	"sync"
	"sync/atomic"
	"syscall"
	"testing"
	"time"
	"unicode"
	"unsafe"

	"verif/enumx"
)

const (
	envWorker  = "C07_WORKER"  // "1" in a worker
	envMark    = "C07_MARK"    // marker file (mmap'd by worker and parent)
	envTier    = "C07_TIER"    // quick|thorough
	envMode    = "C07_MODE"    // "" | "upto" | "match"
	envTask    = "C07_TASK"    // "<area index>:<chunk>" for upto/match
	envSeq     = "C07_SEQ"     // upto: the call number under suspicion
	envEntry   = "C07_ENTRY"   // match: entry name
	envInput   = "C07_INPUT"   // match: input description
	envCeiling = "C07_CEILING" // per-call ceiling (default 30s)
	envMemGiB  = "C07_MEM_GIB" // address-space limit of a worker (default 6)
	envSkip    = "C07_SKIP"    // upto/match: calls not to execute

	// once an entry point has a confirmed hang, further calls of the same
	// entry point are given this ceiling and are not re-confirmed
	reducedCeiling = 5 * time.Second

	kitPrefix = "github.com/dapr/kit/"
)

// Area is one enumerated sub-space.
type Area struct {
	Name   string
	Chunks int
	// Run executes every case of the chunk through c.Call, in a fixed order.
	Run func(c *Ctx, chunk int)
	// Bound is the human statement of what was enumerated (goes into the evidence).
	Bound string
}

// Ctx is handed to Area.Run inside a worker.
type Ctx struct {
	Thorough bool

	mark         []byte
	seq          uint64
	evals        int64
	nontr        int64
	proto        *json.Encoder
	pmu          sync.Mutex
	mode         string
	upto         uint64
	mEntry       string
	mInput       string
	hit          bool
	lastPanicked bool
	keyOf        map[string]string // entry+"\x00"+panic text -> key
	skip         map[uint64]bool   // calls not to execute (already reported as hang/fatal)
	entIDs       map[string]uint64
	cur          atomic.Pointer[curCall] // the call in flight (read by the SIGUSR1 handler)
	perKey       map[string]int
	sample       []string
}

type protoMsg struct {
	T      string   `json:"t"` // done | viol | at | survived | entry
	Area   int      `json:"area,omitempty"`
	Chunk  int      `json:"chunk,omitempty"`
	Seq    uint64   `json:"seq,omitempty"`
	Evals  int64    `json:"evals,omitempty"`
	Nontr  int64    `json:"nontr,omitempty"`
	Key    string   `json:"key,omitempty"`
	Msg    string   `json:"msg,omitempty"`
	Entry  string   `json:"entry,omitempty"`
	Input  string   `json:"input,omitempty"`
	Count  int      `json:"count,omitempty"`
	Sample []string `json:"sample,omitempty"`
}

type curCall struct {
	seq      uint64
	entry    string
	describe func() string
}

// ReplayCase is what is stored with a violation and understood by -replay.
type ReplayCase struct {
	Area  string `json:"area"`
	Chunk int    `json:"chunk"`
	Entry string `json:"entry"`
	Input string `json:"input"`
	Kind  string `json:"kind"` // panic | fatal | hang
}

func (c *Ctx) emit(m protoMsg) {
	c.pmu.Lock()
	c.proto.Encode(m)
	c.pmu.Unlock()
}

// NonTrivial counts n cases as non-trivial (see each part's Rule). It is
// called right after the Call it refers to and does not count a call that
// panicked.
func (c *Ctx) NonTrivial(n int) {
	if !c.lastPanicked {
		c.nontr += int64(n)
	}
}

// Call runs fn as one case. describe is only evaluated when the case has to be
// reported. It returns true if fn panicked.
func (c *Ctx) Call(entry string, describe func() string, fn func()) (panicked bool) {
	c.seq++
	c.evals++
	c.lastPanicked = false
	id, ok := c.entIDs[entry]
	if !ok {
		id = uint64(len(c.entIDs) + 1)
		c.entIDs[entry] = id
		c.emit(protoMsg{T: "entry", Seq: id, Entry: entry})
	}
	atomic.StoreUint64((*uint64)(unsafe.Pointer(&c.mark[16])), id)
	atomic.StoreUint64((*uint64)(unsafe.Pointer(&c.mark[8])), c.seq)
	if c.skip[c.seq] {
		return false
	}
	c.cur.Store(&curCall{c.seq, entry, describe})
	switch c.mode {
	case "upto":
		if c.seq == c.upto {
			c.emit(protoMsg{T: "at", Seq: c.seq, Entry: entry, Input: describe()})
			c.hit = true
		}
	case "match":
		if entry == c.mEntry && describe() == c.mInput {
			c.emit(protoMsg{T: "at", Seq: c.seq, Entry: entry, Input: c.mInput})
			c.hit = true
		}
	default:
		if len(c.sample) < 2 && c.seq%97 == 1 {
			c.sample = append(c.sample, entry+" "+describe())
		}
	}
	defer func() {
		if v := recover(); v != nil {
			panicked = true
			c.lastPanicked = true
			c.onPanic(entry, describe, v)
		}
		if c.hit {
			// the suspected case came back: let stray goroutines of the case
			// crash the process if they are going to, then report survival
			time.Sleep(100 * time.Millisecond)
			c.emit(protoMsg{T: "survived", Seq: c.seq})
			os.Exit(0)
		}
	}()
	fn()
	return false
}

func (c *Ctx) onPanic(entry string, describe func() string, v any) {
	text := fmt.Sprint(v)
	if e, ok := v.(error); ok {
		text = e.Error()
	}
	ck := entry + "\x00" + Class(text)
	key, ok := c.keyOf[ck]
	var stackTxt string
	if !ok {
		pcs := make([]uintptr, 64)
		n := runtime.Callers(3, pcs)
		fr := runtime.CallersFrames(pcs[:n])
		var names []string
		var lines []string
		for {
			f, more := fr.Next()
			if strings.HasSuffix(f.Function, "guard.(*Ctx).Call") {
				break
			}
			names = append(names, f.Function)
			if len(lines) < 14 && !strings.HasPrefix(f.Function, "runtime.") {
				lines = append(lines, fmt.Sprintf("%s (%s:%d)", f.Function, filepath.Base(f.File), f.Line))
			}
			if !more {
				break
			}
		}
		key = KeyFor(entry, names, text)
		c.keyOf[ck] = key
		stackTxt = "\n  stack: " + strings.Join(lines, "\n         ")
	}
	c.perKey[key]++
	variety := "\x01" + key + entry + reNum.ReplaceAllString(text, "N")
	c.perKey[variety]++
	// at most 3 per key and chunk, plus the first of every (entry point, message shape)
	report := c.perKey[key] <= 3 || c.perKey[variety] == 1
	if c.mode != "" {
		report = c.hit // replay modes report only the case asked for
	}
	if report {
		in := describe()
		c.emit(protoMsg{T: "viol", Seq: c.seq, Key: key, Entry: entry, Input: in,
			Msg: fmt.Sprintf("%s panicked on input %s: %s%s", entry, in, text, stackTxt)})
	}
}

var (
	reType = regexp.MustCompile(`\b(of|to) type [^ ]+( {[^}]*})?`)
	reHex  = regexp.MustCompile(`0x[0-9a-fA-F]+`)
	reNum  = regexp.MustCompile(`\b-?[0-9]+\b`)
	reWS   = regexp.MustCompile(`[^A-Za-z0-9_.:*\[\]()<>=+/-]+`)
)

// Class maps a panic text to a class that does not contain varying data.
func Class(text string) string {
	t := strings.TrimPrefix(text, "runtime error: ")
	switch {
	case strings.Contains(t, "index out of range"), strings.Contains(t, "slice bounds out of range"),
		strings.Contains(t, "makeslice: len out of range"), strings.Contains(t, "makeslice: cap out of range"),
		strings.Contains(t, "cannot convert slice with length"):
		return "bounds"
	case strings.HasPrefix(t, "crypto/cipher:"), strings.HasPrefix(t, "cipher.New"):
		return "cipher-args" // the standard library's cipher modes reject the argument sizes by panicking
	case strings.Contains(t, "nil pointer dereference"):
		return "nil-deref"
	case strings.Contains(t, "interface conversion"):
		return "type-assertion"
	case strings.Contains(t, "divide by zero"):
		return "div-zero"
	case strings.Contains(t, "assignment to entry in nil map"):
		return "nil-map"
	}
	if i := strings.IndexByte(t, '\n'); i >= 0 {
		t = t[:i]
	}
	t = reType.ReplaceAllString(t, "$1 type T") // Go type expressions are varying data
	t = reHex.ReplaceAllString(t, "X")
	t = reNum.ReplaceAllString(t, "N")
	t = reWS.ReplaceAllString(t, "_")
	if len(t) > 56 {
		t = t[:56]
	}
	return strings.Trim(t, "_")
}

// display turns a full function name of kit into "pkg/path.Type.Func".
func display(fn string) string {
	s := strings.TrimPrefix(fn, kitPrefix)
	if i := strings.Index(s, "["); i >= 0 { // generic instantiation
		if j := strings.LastIndex(s, "]"); j > i {
			s = s[:i] + s[j+1:]
		}
	}
	s = strings.ReplaceAll(s, "(*", "")
	s = strings.ReplaceAll(s, ")", "")
	return s
}

func exported(fn string) bool {
	d := display(fn)
	if i := strings.LastIndex(d, "/"); i >= 0 {
		d = d[i+1:]
	}
	parts := strings.Split(d, ".")
	if len(parts) < 2 {
		return false
	}
	last := parts[len(parts)-1]
	r := []rune(last)
	return len(r) > 0 && unicode.IsUpper(r[0])
}

// KeyFor computes the identity of a panic: the innermost exported function of
// kit on the panicking stack plus the panic class. names lists the stack's
// function names, innermost first.
func KeyFor(entry string, names []string, text string) string {
	cls := Class(text)
	innermostKit := ""
	harnessFirst := false
	for _, n := range names {
		if strings.HasPrefix(n, "verif/") && innermostKit == "" && !strings.Contains(n, "/guard.") {
			harnessFirst = true
		}
		if !strings.HasPrefix(n, kitPrefix) {
			continue
		}
		if innermostKit == "" {
			innermostKit = n
		}
		if exported(n) {
			if harnessFirst {
				return "harness-callback/" + entry + "/" + cls
			}
			return display(n) + "/" + cls
		}
	}
	if harnessFirst || innermostKit == "" {
		return "harness/" + entry + "/" + cls
	}
	return entry + "/goroutine:" + display(innermostKit) + ":" + cls
}

// ---------------------------------------------------------------------------
// worker side

func ceiling() time.Duration {
	if s := os.Getenv(envCeiling); s != "" {
		if d, err := time.ParseDuration(s); err == nil {
			return d
		}
	}
	return 30 * time.Second
}

func mapMark(path string, create bool) ([]byte, error) {
	fl := os.O_RDWR
	if create {
		fl |= os.O_CREATE | os.O_TRUNC
	}
	f, err := os.OpenFile(path, fl, 0o600)
	if err != nil {
		return nil, err
	}
	defer f.Close()
	if create {
		if err := f.Truncate(64); err != nil {
			return nil, err
		}
	}
	return syscall.Mmap(int(f.Fd()), 0, 64, syscall.PROT_READ|syscall.PROT_WRITE, syscall.MAP_SHARED)
}

func workerMain(areas []*Area, thorough bool) {
	gib := uint64(6)
	if s := os.Getenv(envMemGiB); s != "" {
		if n, err := strconv.Atoi(s); err == nil && n > 0 {
			gib = uint64(n)
		}
	}
	lim := syscall.Rlimit{Cur: gib << 30, Max: gib << 30}
	syscall.Setrlimit(syscall.RLIMIT_AS, &lim)

	mark, err := mapMark(os.Getenv(envMark), false)
	if err != nil {
		fmt.Fprintln(os.Stderr, "guard worker: marker:", err)
		os.Exit(7)
	}
	proto := os.NewFile(3, "proto")
	c := &Ctx{Thorough: thorough, mark: mark, proto: json.NewEncoder(proto), keyOf: map[string]string{}, perKey: map[string]int{}, entIDs: map[string]uint64{}}
	c.mode = os.Getenv(envMode)
	// SIGUSR1 = "you look stuck": say which call is in flight, dump all
	// goroutine stacks, and exit
	sig := make(chan os.Signal, 1)
	signal.Notify(sig, syscall.SIGUSR1)
	go func() {
		<-sig
		m := protoMsg{T: "stuck"}
		if cc := c.cur.Load(); cc != nil {
			m.Seq, m.Entry = cc.seq, cc.entry
			func() {
				defer func() { recover() }()
				m.Input = cc.describe()
			}()
		}
		buf := make([]byte, 1<<20)
		m.Msg = string(buf[:runtime.Stack(buf, true)])
		c.emit(m)
		os.Exit(3)
	}()
	runTask := func(ai, chunk int, skip string) {
		c.seq, c.evals, c.nontr, c.sample = 0, 0, 0, nil
		c.skip = map[uint64]bool{}
		for _, f := range strings.Split(skip, ",") {
			if n, err := strconv.ParseUint(f, 10, 64); err == nil {
				c.skip[n] = true
			}
		}
		c.perKey = map[string]int{}
		atomic.StoreUint64((*uint64)(unsafe.Pointer(&mark[8])), 0)
		atomic.StoreUint64((*uint64)(unsafe.Pointer(&mark[0])), uint64(ai)<<32|uint64(uint32(chunk)))
		areas[ai].Run(c, chunk)
		c.emit(protoMsg{T: "done", Area: ai, Chunk: chunk, Evals: c.evals, Nontr: c.nontr, Sample: c.sample})
	}
	if c.mode != "" {
		var ai, chunk int
		fmt.Sscanf(os.Getenv(envTask), "%d:%d", &ai, &chunk)
		c.upto, _ = strconv.ParseUint(os.Getenv(envSeq), 10, 64)
		c.mEntry, c.mInput = os.Getenv(envEntry), os.Getenv(envInput)
		runTask(ai, chunk, os.Getenv(envSkip))
		os.Exit(0)
	}
	in := bufio.NewScanner(os.Stdin)
	in.Buffer(make([]byte, 1<<16), 1<<22)
	for in.Scan() {
		f := strings.SplitN(in.Text(), ":", 3)
		if len(f) < 3 {
			continue
		}
		ai, e1 := strconv.Atoi(f[0])
		chunk, e2 := strconv.Atoi(f[1])
		if e1 != nil || e2 != nil {
			continue
		}
		runTask(ai, chunk, f[2])
	}
	os.Exit(0)
}

// ---------------------------------------------------------------------------
// parent side

type capBuf struct {
	mu sync.Mutex
	b  []byte
}

func (c *capBuf) Write(p []byte) (int, error) {
	c.mu.Lock()
	if len(c.b) < 1<<20 {
		c.b = append(c.b, p...)
	}
	c.mu.Unlock()
	return len(p), nil
}
func (c *capBuf) String() string { c.mu.Lock(); defer c.mu.Unlock(); return string(c.b) }
func (c *capBuf) Reset()         { c.mu.Lock(); c.b = c.b[:0]; c.mu.Unlock() }

type proc struct {
	cmd    *exec.Cmd
	stdin  io.WriteCloser
	proto  *bufio.Scanner
	protoR *os.File
	mark   []byte
	stderr *capBuf
	hung   atomic.Bool
	entMu  sync.Mutex
	ents   map[uint64]string
	stuck  *protoMsg
}

// nudge asks a stalled worker to report what it is doing and kills it if it
// does not leave within 10 s.
func (p *proc) nudge() {
	if p.cmd == nil || p.cmd.Process == nil {
		return
	}
	p.cmd.Process.Signal(syscall.SIGUSR1)
	pr := p.cmd.Process
	go func() {
		time.Sleep(10 * time.Second)
		pr.Kill()
	}()
}

func (p *proc) entryName() string {
	id := atomic.LoadUint64((*uint64)(unsafe.Pointer(&p.mark[16])))
	p.entMu.Lock()
	defer p.entMu.Unlock()
	return p.ents[id]
}

func (p *proc) learn(m protoMsg) {
	p.entMu.Lock()
	p.ents[m.Seq] = m.Entry
	p.entMu.Unlock()
}

func (p *proc) markVals() (ai, chunk int, seq uint64) {
	w := atomic.LoadUint64((*uint64)(unsafe.Pointer(&p.mark[0])))
	seq = atomic.LoadUint64((*uint64)(unsafe.Pointer(&p.mark[8])))
	return int(w >> 32), int(uint32(w)), seq
}

// cpuSeconds returns the CPU time (user+system) the worker has used so far.
func (p *proc) cpuSeconds() float64 {
	if p.cmd == nil || p.cmd.Process == nil {
		return 0
	}
	b, err := os.ReadFile(fmt.Sprintf("/proc/%d/stat", p.cmd.Process.Pid))
	if err != nil {
		return 0
	}
	st := string(b)
	if i := strings.LastIndex(st, ")"); i >= 0 {
		st = st[i+1:]
	}
	f := strings.Fields(st)
	if len(f) < 13 {
		return 0
	}
	ut, _ := strconv.ParseFloat(f[11], 64) // utime: field 14 of the file, 12th after the command name
	stt, _ := strconv.ParseFloat(f[12], 64)
	return (ut + stt) / 100
}

func (p *proc) kill() {
	if p.cmd != nil && p.cmd.Process != nil {
		p.cmd.Process.Kill()
	}
}

func (p *proc) close() {
	if p.stdin != nil {
		p.stdin.Close()
	}
	p.kill()
	p.cmd.Wait()
	p.protoR.Close()
	syscall.Munmap(p.mark)
}

type driver struct {
	r         *enumx.Run
	areas     []*Area
	tier      string
	scratch   string
	nproc     atomic.Int64
	mu        sync.Mutex
	ceil      time.Duration
	hanging   map[string]bool   // hang keys (site/hang) confirmed in this run
	skips     map[task][]uint64 // calls already reported as hang/fatal, not executed again
	seen      map[string]bool   // violating calls already recorded
	groups    map[string]*group // violating calls grouped by key
	immediate bool              // replay mode: report at once
	stalls    map[string]int    // further stalls per confirmed hang key
	abandoned map[string]int    // chunks given up per area after repeated stalls at a reported hang site
}

func (d *driver) isHanging(key string) bool {
	d.mu.Lock()
	defer d.mu.Unlock()
	return d.hanging[key]
}

func (d *driver) anyHang() bool {
	d.mu.Lock()
	defer d.mu.Unlock()
	return len(d.hanging) > 0
}

// hangSite finds where a stalled worker is: the innermost kit function on the
// stack of the goroutine that runs the call (or, if that goroutine only waits,
// of any other goroutine).
func hangSite(dump string) string {
	if f := kitFrames(dump); len(f) > 0 {
		return f[0]
	}
	return ""
}

// kitFrames lists the kit functions on the stack of the goroutine that runs
// the call (innermost first); if that goroutine has none (it only waits), those
// of the first other goroutine that has some.
func kitFrames(dump string) []string {
	blocks := strings.Split(dump, "\n\n")
	frames := func(b string) []string {
		var out []string
		for _, l := range strings.Split(b, "\n") {
			if strings.HasPrefix(l, kitPrefix) {
				if k := strings.LastIndex(l, "("); k > 0 {
					l = l[:k]
				}
				out = append(out, display(l))
			}
		}
		return out
	}
	for _, b := range blocks {
		if strings.Contains(b, "guard.(*Ctx).Call(") {
			if f := frames(b); len(f) > 0 {
				return f
			}
		}
	}
	for _, b := range blocks {
		if strings.Contains(b, "guard.") {
			continue
		}
		if f := frames(b); len(f) > 0 {
			return f
		}
	}
	return nil
}

// commonSite is the innermost kit function present in every dump: a spinning
// loop is sampled in different leaf functions, its own frame is in all samples.
func commonSite(dumps []string) string {
	var sets [][]string
	for _, d := range dumps {
		if f := kitFrames(d); len(f) > 0 {
			sets = append(sets, f)
		}
	}
	if len(sets) == 0 {
		return ""
	}
	for _, cand := range sets[0] {
		all := true
		for _, o := range sets[1:] {
			found := false
			for _, x := range o {
				found = found || x == cand
			}
			all = all && found
		}
		if all {
			return cand
		}
	}
	return sets[0][0]
}

// confirmedKey returns the key of an already confirmed hang whose site is on the stack of dump.
func (d *driver) confirmedKey(dump string) string {
	for _, f := range kitFrames(dump) {
		if d.isHanging(f + "/hang") {
			return f + "/hang"
		}
	}
	return ""
}

func hangKey(entry, dump string) string {
	if s := hangSite(dump); s != "" {
		return s + "/hang"
	}
	return entry + "/hang"
}

func stackOfCall(dump string) string {
	pick := ""
	for _, b := range strings.Split(dump, "\n\n") {
		if strings.Contains(b, "guard.(*Ctx).Call(") {
			pick = b
			break
		}
	}
	if pick == "" {
		return tailStr(dump, 1200)
	}
	// function names only, consecutive repeats collapsed
	var out []string
	prev, rep := "", 0
	flush := func() {
		if prev == "" {
			return
		}
		if rep > 1 {
			prev += fmt.Sprintf(" (x%d)", rep)
		}
		out = append(out, prev)
	}
	for i, l := range strings.Split(pick, "\n") {
		if i == 0 || strings.HasPrefix(l, "\t") || l == "" {
			continue
		}
		if k := strings.LastIndex(l, "("); k > 0 {
			l = l[:k]
		}
		if l == prev {
			rep++
			continue
		}
		flush()
		prev, rep = l, 1
		if strings.HasSuffix(l, "guard.(*Ctx).Call") {
			break
		}
	}
	flush()
	if len(out) > 24 {
		out = append(out[:12], append([]string{"..."}, out[len(out)-11:]...)...)
	}
	return "stalled in: " + strings.Join(out, "\n  <- ")
}

func (d *driver) skipList(t task) string {
	d.mu.Lock()
	defer d.mu.Unlock()
	var f []string
	for _, s := range d.skips[t] {
		f = append(f, strconv.FormatUint(s, 10))
	}
	return strings.Join(f, ",")
}

func (d *driver) addSkip(t task, seq uint64) {
	d.mu.Lock()
	d.skips[t] = append(d.skips[t], seq)
	d.mu.Unlock()
}

func (d *driver) spawn(extraEnv ...string) (*proc, error) {
	id := d.nproc.Add(1)
	markPath := filepath.Join(d.scratch, fmt.Sprintf("mark-%d", id))
	mark, err := mapMark(markPath, true)
	if err != nil {
		return nil, err
	}
	pr, pw, err := os.Pipe()
	if err != nil {
		return nil, err
	}
	cmd := exec.Command(os.Args[0], "-test.run", "^TestCheck$", "-test.timeout", "0")
	// the worker must not outlive its driver (an orphan would burn CPU forever on a hanging input)
	cmd.SysProcAttr = &syscall.SysProcAttr{Pdeathsig: syscall.SIGKILL}
	cmd.Env = append(os.Environ(), envWorker+"=1", envMark+"="+markPath, envTier+"="+d.tier, "GOMAXPROCS=2", "GOTRACEBACK=all")
	cmd.Env = append(cmd.Env, extraEnv...)
	cmd.ExtraFiles = []*os.File{pw}
	se := &capBuf{}
	cmd.Stderr = se
	cmd.Stdout = io.Discard
	stdin, err := cmd.StdinPipe()
	if err != nil {
		return nil, err
	}
	if err := cmd.Start(); err != nil {
		return nil, err
	}
	pw.Close()
	sc := bufio.NewScanner(pr)
	sc.Buffer(make([]byte, 1<<20), 16<<20)
	return &proc{cmd: cmd, stdin: stdin, proto: sc, protoR: pr, mark: mark, stderr: se, ents: map[uint64]string{}}, nil
}

type task struct{ area, chunk int }

type uptoResult struct {
	dump         string // goroutine dump of a stalled worker
	entry, input string
	outcome      string // survived | died | timeout | notreached
	stderr       string
	viols        []protoMsg
}

// runSuspect re-runs one chunk in a fresh worker up to (and including) the
// suspected call, or (match mode) the call identified by entry+input.
func (d *driver) runSuspect(t task, seq uint64, entry, input string, ceil time.Duration) uptoResult {
	env := []string{envTask + "=" + fmt.Sprintf("%d:%d", t.area, t.chunk), envSkip + "=" + d.skipList(t)}
	if seq > 0 {
		env = append(env, envMode+"=upto", envSeq+"="+strconv.FormatUint(seq, 10))
	} else {
		env = append(env, envMode+"=match", envEntry+"="+entry, envInput+"="+input)
	}
	p, err := d.spawn(env...)
	if err != nil {
		return uptoResult{outcome: "notreached", stderr: err.Error()}
	}
	defer p.close()
	p.stdin.Close()
	p.stdin = nil
	res := uptoResult{outcome: "notreached"}
	lines := make(chan protoMsg, 16)
	go func() {
		for p.proto.Scan() {
			var m protoMsg
			if json.Unmarshal(p.proto.Bytes(), &m) == nil {
				lines <- m
			}
		}
		close(lines)
	}()
	// before the suspect is reached the whole prefix of the chunk is re-run:
	// allow it the ceiling per stalled call as in a normal run
	var timer <-chan time.Time
	stall := time.NewTicker(250 * time.Millisecond)
	defer stall.Stop()
	lastSeq, lastChange := uint64(0), time.Now()
	for {
		select {
		case m, ok := <-lines:
			if !ok {
				p.cmd.Wait()
				res.stderr = p.stderr.String()
				if res.outcome == "at" {
					res.outcome = "died"
				}
				return res
			}
			switch m.T {
			case "at":
				res.entry, res.input, res.outcome = m.Entry, m.Input, "at"
				timer = time.After(ceil)
			case "viol":
				res.viols = append(res.viols, m)
			case "stuck":
				res.dump = m.Msg
			case "survived":
				res.outcome = "survived"
				return res
			case "done":
				if res.outcome == "at" {
					res.outcome = "survived"
				}
				return res
			}
		case <-timer:
			res.outcome = "timeout"
			res.stderr = p.stderr.String()
			p.nudge()
			wait := time.After(11 * time.Second)
			for res.dump == "" {
				select {
				case m, ok := <-lines:
					if !ok {
						return res
					}
					if m.T == "stuck" {
						res.dump = m.Msg
					}
				case <-wait:
					return res
				}
			}
			return res
		case <-stall.C:
			_, _, s := p.markVals()
			if s != lastSeq {
				lastSeq, lastChange = s, time.Now()
			} else if res.outcome != "at" && time.Since(lastChange) > d.ceil+5*time.Second {
				res.stderr = "prefix of the chunk stalled before the suspected call was reached"
				return res
			}
		}
	}
}

var reFatal = regexp.MustCompile(`(?m)^(fatal error: .*|panic: .*|runtime: out of memory.*|SIGSEGV.*|signal: .*)$`)

// classifyDeath extracts the reason and (for goroutine panics) the stack's
// function names from a crashed worker's stderr.
func classifyDeath(stderr string) (text string, names []string) {
	text = "worker process died"
	if m := reFatal.FindString(stderr); m != "" {
		text = m
	}
	text = strings.TrimPrefix(text, "panic: ")
	if i := strings.Index(text, " [recovered]"); i >= 0 {
		text = text[:i]
	}
	// first goroutine dump
	i := strings.Index(stderr, "\ngoroutine ")
	if i < 0 {
		return text, nil
	}
	rest := stderr[i+1:]
	if j := strings.Index(rest, "\n\n"); j >= 0 {
		rest = rest[:j]
	}
	for _, l := range strings.Split(rest, "\n")[1:] {
		if strings.HasPrefix(l, "\t") || strings.HasPrefix(l, "created by") || l == "" {
			continue
		}
		if k := strings.LastIndex(l, "("); k > 0 {
			l = l[:k]
		}
		if strings.HasPrefix(l, "runtime.") || l == "panic" {
			continue
		}
		names = append(names, l)
	}
	return text, names
}

func tailStr(s string, n int) string {
	if len(s) > n {
		return s[:n] + "\n  ...[cut]"
	}
	return s
}

// violation records one violating call. In a sweep the calls are grouped by
// key and handed to enumx at the end as ONE finding per key (with the first
// call as the replay case and further inputs listed as examples); in replay
// mode they are reported at once.
func (d *driver) violation(a *Area, t task, kind, key, msg, entry, input string) {
	id := fmt.Sprintf("%s\x00%d\x00%s\x00%s\x00%s", a.Name, t.chunk, key, entry, input)
	d.mu.Lock()
	defer d.mu.Unlock()
	if d.seen[id] {
		return // the chunk was run again after a lost worker
	}
	d.seen[id] = true
	rc := ReplayCase{Area: a.Name, Chunk: t.chunk, Entry: entry, Input: input, Kind: kind}
	if d.immediate {
		d.r.Violation(key, msg, rc)
		return
	}
	g := d.groups[key]
	if g == nil {
		g = &group{key: key, msg: msg, rc: rc, order: len(d.groups)}
		d.groups[key] = g
	} else if len(g.more) < 8 {
		ex := entry + " " + input
		if len(ex) > 300 {
			ex = ex[:300] + "..."
		}
		g.more = append(g.more, ex)
	}
	g.n++
}

type group struct {
	key, msg string
	rc       ReplayCase
	more     []string
	n, order int
}

func (d *driver) flush() {
	d.mu.Lock()
	defer d.mu.Unlock()
	var gs []*group
	for _, g := range d.groups {
		gs = append(gs, g)
	}
	sort.Slice(gs, func(i, j int) bool { return gs[i].key < gs[j].key })
	counts := map[string]int{}
	for _, g := range gs {
		msg := g.msg
		if g.n > 1 {
			msg += fmt.Sprintf("\n  %d violating calls were reported under this key (workers report at most 3 per key and chunk, plus the first of every entry point / message shape); further inputs:\n    %s", g.n, strings.Join(g.more, "\n    "))
		}
		counts[g.key] = g.n
		d.r.Violation(g.key, msg, g.rc)
	}
	d.r.Set("violating_calls_per_key", counts)
}

// judgeDeath is called when a worker died (or was stopped as stalled) while
// the marker showed call seq of task t. It returns "confirmed" (a violation was
// reported: the call goes on the chunk's skip list and the chunk is run
// again), "retry" (not reproducible: run the chunk again once) or "abandon".
func (d *driver) judgeDeath(t task, seq uint64, hung bool, stuck *protoMsg, stderr string) string {
	a := d.areas[t.area]
	if seq == 0 {
		d.r.Incomplete(fmt.Sprintf("%s chunk %d: worker died outside any call (harness fault): %s", a.Name, t.chunk, tailStr(stderr, 600)))
		return "abandon"
	}
	if hung {
		if stuck != nil && stuck.Seq == seq {
			key := d.confirmedKey(stuck.Msg)
			if key == "" && d.isHanging(stuck.Entry+"/hang") {
				key = stuck.Entry + "/hang"
			}
			if key != "" {
				// same site as a hang already confirmed with the full ceiling
				d.mu.Lock()
				d.stalls[key]++
				n := d.stalls[key]
				if n > 3 {
					d.abandoned[a.Name]++
				}
				d.mu.Unlock()
				if n > 3 {
					// every further stalling input costs the reduced ceiling and a
					// restart of the chunk: stop looking for more instances of a
					// defect that is already reported, give the chunk up
					return "abandon"
				}
				d.violation(a, t, "hang", key, fmt.Sprintf("%s stalled on input %s at the site of a hang that was already confirmed in this run with the full ceiling of %s on three re-runs (this instance: stopped after %s, not re-confirmed)\n  %s", stuck.Entry, stuck.Input, d.ceil, reducedCeiling, strings.ReplaceAll(stackOfCall(stuck.Msg), "\n", "\n  ")), stuck.Entry, stuck.Input)
				return "confirmed"
			}
		}
		n := 0
		var last uptoResult
		dump := ""
		var dumps []string
		if stuck != nil && stuck.Seq == seq {
			dump = stuck.Msg
			dumps = append(dumps, stuck.Msg)
		}
		for i := 0; i < 3; i++ {
			last = d.runSuspect(t, seq, "", "", d.ceil)
			if last.outcome != "timeout" {
				break
			}
			if hangSite(last.dump) != "" || dump == "" {
				dump = last.dump
			}
			dumps = append(dumps, last.dump)
			n++
		}
		if n == 3 {
			last.dump = dump
			key := last.entry + "/hang"
			if s := commonSite(dumps); s != "" {
				key = s + "/hang"
			}
			for _, dd := range dumps {
				if k := d.confirmedKey(dd); k != "" {
					key = k // another worker confirmed the same loop meanwhile
					break
				}
			}
			d.violation(a, t, "hang", key, fmt.Sprintf("%s did not return within %s on input %s (first seen in the sweep, then confirmed on 3 separate isolated re-runs)\n  %s", last.entry, d.ceil, last.input, strings.ReplaceAll(stackOfCall(last.dump), "\n", "\n  ")), last.entry, last.input)
			d.mu.Lock()
			d.hanging[key] = true
			d.mu.Unlock()
			return "confirmed"
		}
		if last.outcome == "died" {
			d.reportDeath(a, t, last)
			return "confirmed"
		}
		return "retry" // not confirmed: slow machine; run the chunk again
	}
	res := d.runSuspect(t, seq, "", "", d.ceil)
	switch res.outcome {
	case "died":
		d.reportDeath(a, t, res)
		return "confirmed"
	case "timeout":
		return d.judgeDeath(t, seq, true, nil, stderr)
	default:
		return "retry"
	}
}

func (d *driver) reportDeath(a *Area, t task, res uptoResult) {
	text, names := classifyDeath(res.stderr)
	key := ""
	if strings.HasPrefix(text, "fatal error:") || strings.Contains(text, "out of memory") || len(names) == 0 {
		key = res.entry + "/fatal:" + Class(strings.TrimPrefix(text, "fatal error: "))
	} else {
		key = KeyFor(res.entry, names, text)
		if !strings.Contains(key, "/goroutine:") {
			// a panic outside the calling goroutine's recover: say so
			if i := strings.LastIndex(key, "/"); i >= 0 {
				key = key[:i] + "/unrecovered:" + key[i+1:]
			}
		}
	}
	d.violation(a, t, "fatal", key,
		fmt.Sprintf("%s killed the process on input %s (observed twice: in the sweep and in an isolated re-run): %s\n  %s", res.entry, res.input, text, strings.ReplaceAll(tailStr(res.stderr, 1500), "\n", "\n  ")),
		res.entry, res.input)
}

type areaStat struct {
	done  atomic.Int64
	evals atomic.Int64
	nontr atomic.Int64
	viols atomic.Int64
}

func (d *driver) run() {
	r := d.r
	var tasks []task
	for ai, a := range d.areas {
		for c := 0; c < a.Chunks; c++ {
			tasks = append(tasks, task{ai, c})
		}
	}
	stats := make([]areaStat, len(d.areas))
	var next atomic.Int64
	var retryMu sync.Mutex
	retried := map[task]int{}
	var retryQ []task
	take := func() (task, bool) {
		retryMu.Lock()
		if len(retryQ) > 0 {
			t := retryQ[0]
			retryQ = retryQ[1:]
			retryMu.Unlock()
			return t, true
		}
		retryMu.Unlock()
		if r.Expired() {
			return task{}, false
		}
		i := int(next.Add(1) - 1)
		if i >= len(tasks) {
			return task{}, false
		}
		return tasks[i], true
	}
	nw := runtime.NumCPU()
	if nw > len(tasks) {
		nw = len(tasks)
	}
	var wg sync.WaitGroup
	for w := 0; w < nw; w++ {
		wg.Add(1)
		go func() {
			defer wg.Done()
			var p *proc
			defer func() {
				if p != nil {
					p.close()
				}
			}()
			for {
				t, ok := take()
				if !ok {
					return
				}
				if p == nil {
					var err error
					if p, err = d.spawn(); err != nil {
						r.Incomplete("cannot start worker: " + err.Error())
						return
					}
				}
				p.stderr.Reset()
				p.hung.Store(false)
				p.stuck = nil
				fmt.Fprintf(p.stdin, "%d:%d:%s\n", t.area, t.chunk, d.skipList(t))
				// watchdog
				stop := make(chan struct{})
				go func(p *proc) {
					tk := time.NewTicker(200 * time.Millisecond)
					defer tk.Stop()
					var last uint64 = ^uint64(0)
					lastChange := time.Now()
					cpuAtChange := p.cpuSeconds()
					for {
						select {
						case <-stop:
							return
						case <-tk.C:
							_, _, s := p.markVals()
							if s != last {
								last, lastChange, cpuAtChange = s, time.Now(), p.cpuSeconds()
							} else if time.Since(lastChange) > d.ceil || (time.Since(lastChange) > reducedCeiling && d.anyHang() && p.cpuSeconds()-cpuAtChange > 0.8*reducedCeiling.Seconds()) {
								// after the first confirmed hang of the run, stalls are
								// looked at after the reduced ceiling (which only counts when
								// the worker really burned that much CPU on the call: on an
								// overloaded machine a starved worker is not a stalled one);
								// a stall at a new site is still confirmed with the full ceiling
								p.hung.Store(true)
								p.nudge()
								return
							}
						}
					}
				}(p)
				finished := false
				for p.proto.Scan() {
					var m protoMsg
					if json.Unmarshal(p.proto.Bytes(), &m) != nil {
						continue
					}
					if m.T == "entry" {
						p.learn(m)
					}
					if m.T == "stuck" {
						mm := m
						p.stuck = &mm
					}
					if m.T == "viol" {
						stats[t.area].viols.Add(1)
						d.violation(d.areas[t.area], t, "panic", m.Key, m.Msg, m.Entry, m.Input)
					}
					if m.T == "done" {
						stats[t.area].done.Add(1)
						stats[t.area].evals.Add(m.Evals)
						stats[t.area].nontr.Add(m.Nontr)
						r.Count(m.Evals, m.Nontr)
						for _, s := range m.Sample {
							r.Sample(d.areas[t.area].Name + ": " + s)
						}
						finished = true
						break
					}
				}
				close(stop)
				if finished {
					continue
				}
				// the worker is gone
				p.cmd.Wait()
				_, _, seq := p.markVals()
				hung := p.hung.Load()
				stuck := p.stuck
				se := p.stderr.String()
				p.close()
				p = nil
				switch d.judgeDeath(t, seq, hung, stuck, se) {
				case "confirmed":
					d.addSkip(t, seq)
					retryMu.Lock()
					retryQ = append(retryQ, t)
					retryMu.Unlock()
				case "retry":
					retryMu.Lock()
					retried[t]++
					if retried[t] <= 1 {
						retryQ = append(retryQ, t)
					} else {
						r.Incomplete(fmt.Sprintf("%s chunk %d: worker died or stalled at call %d twice but the isolated re-run of that call returned normally (not reproducible; not counted as a violation): %s", d.areas[t.area].Name, t.chunk, seq, tailStr(se, 400)))
					}
					retryMu.Unlock()
				}
			}
		}()
	}
	wg.Wait()
	per := map[string]any{}
	for ai, a := range d.areas {
		st := &stats[ai]
		per[a.Name] = map[string]any{"chunks": a.Chunks, "chunks_done": st.done.Load(), "calls": st.evals.Load(), "nontrivial": st.nontr.Load(), "violating_calls_reported": st.viols.Load(), "bound": a.Bound}
		if int(st.done.Load()) == a.Chunks {
			r.Space(fmt.Sprintf("%s: %s (%d calls)", a.Name, a.Bound, st.evals.Load()))
		} else {
			why := "before the budget expired or a worker was lost"
			if n := d.abandoned[a.Name]; n > 0 {
				why = fmt.Sprintf("; %d chunks were given up after more than 3 further stalls at the site of an already reported hang (each further instance costs %s and a restart of the chunk)", n, reducedCeiling)
			}
			r.Incomplete(fmt.Sprintf("%s: %d of %d chunks completed (%d calls) %s", a.Name, st.done.Load(), a.Chunks, st.evals.Load(), why))
		}
	}
	r.Set("areas", per)
	r.Set("per_call_ceiling_s", d.ceil.Seconds())
}

func (d *driver) replay(rc *enumx.ReplayCase) {
	var c ReplayCase
	if err := json.Unmarshal(rc.Case, &c); err != nil {
		d.r.Incomplete("replay file not understood: " + err.Error())
		return
	}
	for ai, a := range d.areas {
		if a.Name != c.Area {
			continue
		}
		t := task{ai, c.Chunk}
		tries := 1
		if c.Kind == "hang" {
			tries = 3
		}
		timeouts := 0
		dump := ""
		for i := 0; i < tries; i++ {
			res := d.runSuspect(t, 0, c.Entry, c.Input, d.ceil)
			dump = res.dump
			for _, v := range res.viols {
				d.violation(a, t, "panic", v.Key, v.Msg, v.Entry, v.Input)
			}
			switch res.outcome {
			case "died":
				d.reportDeath(a, t, res)
				return
			case "timeout":
				timeouts++
			case "notreached":
				fmt.Printf("replay: case %s %q not found in %s chunk %d\n", c.Entry, c.Input, a.Name, c.Chunk)
				return
			default:
				return
			}
		}
		if timeouts == tries {
			d.violation(a, t, "hang", hangKey(c.Entry, dump), fmt.Sprintf("%s did not return within %s on input %s (%d runs)", c.Entry, d.ceil, c.Input, tries), c.Entry, c.Input)
		}
		return
	}
	fmt.Printf("replay: area %q is not part of this part\n", c.Area)
}

// Main is the body of TestCheck for a C07 part.
func Main(t *testing.T, property, part string, areas func(thorough bool) []*Area, rule string) {
	if os.Getenv(envWorker) != "" {
		th := os.Getenv(envTier) == "thorough"
		workerMain(areas(th), th)
		return
	}
	enumx.Main(t, property, part, func(r *enumx.Run, replay *enumx.ReplayCase) {
		scratch := os.Getenv("VERIF_SCRATCH")
		own := false
		if scratch == "" {
			var err error
			if scratch, err = os.MkdirTemp("", "c07-"); err != nil {
				t.Fatal(err)
			}
			own = true
		}
		if own {
			defer os.RemoveAll(scratch)
		}
		d := &driver{r: r, areas: areas(r.Thorough()), tier: r.Tier, scratch: scratch, ceil: ceiling(), hanging: map[string]bool{}, skips: map[task][]uint64{}, seen: map[string]bool{}, groups: map[string]*group{}, stalls: map[string]int{}, abandoned: map[string]int{}}
		r.Rule(rule)
		r.Assume("C07 is decided for all inputs up to the stated bounds, not all byte strings: every member of each bounded family (token sequences, short strings over the stated alphabets, every truncation and single-byte mutation class of valid encodings, every length 0..64 of a byte argument) is executed; coverage-guided fuzzing is a different family and is not used")
		r.Assume("hang = a call that does not return within the per-call ceiling (30 s unless overridden; slowest legitimate call observed is an unsatisfiable cron Next, ~50 ms), observed once in the sweep and confirmed on three isolated re-runs; after a hang has been confirmed, further stalls at the same code site are recorded under the same key after 5 s without re-confirmation")
		r.Assume("documented programmer-misuse panics are excluded by construction: AEAD Seal with a wrong-size nonce, cron.NewParser with two optional fields, ttlcache.Set with ttl<=0, errors.Build without ErrorInfo; in-memory arguments are well-formed Go values (no nil interfaces / typed-nil key objects)")
		if replay != nil {
			d.immediate = true
			d.replay(replay)
			return
		}
		d.run()
		d.flush()
	})
}
