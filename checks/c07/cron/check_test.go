// Package cron is the C07 part for kit's cron parser and schedules.
package cron

import (
	"fmt"
	"strings"
	"testing"
	"time"

	kcron "github.com/dapr/kit/cron"

	"verif/checks/c07/guard"
)

const rule = "cron: Parser.Parse under five option sets on EVERY sequence of <= k tokens from the token alphabet, joined by one space and joined by nothing (k = 4 quick, 5 thorough), each call under recover() in a worker subprocess with an in-flight marker; Schedule.Next at three fixed instants on every distinct schedule produced by sequences of <= k-1 tokens. non-trivial = the spec was accepted (a schedule was returned) or a Next call was made. cron-missing-day: every zone of the system tzdata with an offset jump of >= 23 h (a skipped or repeated local day; found by scanning, Pacific/Apia and Pacific/Kwajalein always included) x day-of-month-, day-of-week- and both-restricted specs x hours 0/12/23 x TZ= / CRON_TZ= / zone-carried-by-the-start-instant; Next from every day 40 days before to 2 days after the jump and every hour within 30 h of it; a Next that does not return is caught by the hang guard (non-trivial = a non-zero time came back)."

// tokens is the alphabet (numbers at and beyond the range edges, operators,
// names, time-zone prefixes, descriptors, durations, empty, huge, unicode).
var tokens = []string{
	"", "0", "1", "7", "12", "23", "31", "32", "59", "60", "-1",
	"99999999999999999999", "9223372036854775807",
	"*", "?", "-", "/", ",", "*/2", "*/0", "1-5", "5-1", "1,2",
	"jan", "DEC", "mon", "SUN", "foo",
	"TZ=UTC", "CRON_TZ=", "TZ=", "TZ=Asia/Tokyo", "CRON_TZ=Nope",
	"@every", "@daily", "@", "1h", "-1h30m", "1ns",
	"٣", " ", "é",
}

type optSet struct {
	name string
	opts kcron.ParseOption
}

// five option sets; none configures two optional fields (documented misuse).
var optSets = []optSet{
	{"standard", kcron.Minute | kcron.Hour | kcron.Dom | kcron.Month | kcron.Dow | kcron.Descriptor},
	{"seconds", kcron.Second | kcron.Minute | kcron.Hour | kcron.Dom | kcron.Month | kcron.Dow | kcron.Descriptor},
	{"secondOptional", kcron.SecondOptional | kcron.Minute | kcron.Hour | kcron.Dom | kcron.Month | kcron.Dow | kcron.Descriptor},
	{"dowOptional", kcron.Minute | kcron.Hour | kcron.Dom | kcron.Month | kcron.DowOptional},
	{"dateOnly", kcron.Dom | kcron.Month | kcron.Dow},
}

var instants = func() []time.Time {
	ny, err := time.LoadLocation("America/New_York")
	if err != nil {
		ny = time.FixedZone("EST", -5*3600)
	}
	return []time.Time{
		time.Date(2024, 2, 29, 23, 59, 59, 500_000_000, time.UTC),
		time.Date(2023, 3, 12, 1, 59, 59, 0, ny),
		{},
	}
}()

type schedKey struct {
	s   kcron.SpecSchedule
	loc string
}

// chunk layout: for every length L in 0..k and both joins, the sequences are
// split by their first min(L,2) tokens... see plan().
type chunkDef struct {
	length int
	sep    string
	prefix []int // fixed leading token indices
}

func plan(k int) []chunkDef {
	var out []chunkDef
	n := len(tokens)
	for L := 0; L <= k; L++ {
		for _, sep := range []string{" ", ""} {
			if L <= 1 && sep == "" {
				continue // identical strings to the space join
			}
			switch {
			case L <= 3:
				out = append(out, chunkDef{L, sep, nil})
			case L == 4:
				for a := 0; a < n; a++ {
					out = append(out, chunkDef{L, sep, []int{a}})
				}
			default:
				for a := 0; a < n; a++ {
					for b := 0; b < n; b++ {
						out = append(out, chunkDef{L, sep, []int{a, b}})
					}
				}
			}
		}
	}
	return out
}

func areas(thorough bool) []*guard.Area {
	k := 4
	if thorough {
		k = 5
	}
	chunks := plan(k)
	parsers := make([]kcron.Parser, len(optSets))
	for i, o := range optSets {
		parsers[i] = kcron.NewParser(o.opts)
	}
	run := func(c *guard.Ctx, ci int) {
		cd := chunks[ci]
		doNext := cd.length <= k-1
		seen := map[schedKey]bool{}
		idx := make([]int, cd.length)
		copy(idx, cd.prefix)
		free := cd.length - len(cd.prefix)
		parts := make([]string, cd.length)
		for {
			for i, t := range idx {
				parts[i] = tokens[t]
			}
			spec := strings.Join(parts, cd.sep)
			for pi := range parsers {
				var sched kcron.Schedule
				var err error
				p := parsers[pi]
				name := optSets[pi].name
				c.Call("cron.Parser.Parse", func() string { return fmt.Sprintf("opts=%s spec=%q", name, spec) }, func() {
					sched, err = p.Parse(spec)
				})
				if err != nil || sched == nil {
					continue
				}
				c.NonTrivial(1)
				if !doNext {
					continue
				}
				if ss, ok := sched.(*kcron.SpecSchedule); ok {
					k := schedKey{*ss, ss.Location.String()}
					k.s.Location = nil
					if seen[k] {
						continue
					}
					seen[k] = true
				}
				for ti, t := range instants {
					c.Call("cron.Schedule.Next", func() string {
						return fmt.Sprintf("opts=%s spec=%q t=#%d(%s)", name, spec, ti, t.Format(time.RFC3339Nano))
					}, func() {
						_ = sched.Next(t)
					})
					c.NonTrivial(1)
				}
			}
			// next sequence
			i := cd.length - 1
			for ; i >= cd.length-free; i-- {
				idx[i]++
				if idx[i] < len(tokens) {
					break
				}
				idx[i] = 0
			}
			if i < cd.length-free {
				break
			}
		}
	}
	return []*guard.Area{missingDayArea(thorough), {
		Name:   "cron",
		Chunks: len(chunks),
		Run:    run,
		Bound:  fmt.Sprintf("all sequences of 0..%d tokens over a %d-token alphabet, joined by ' ' and by '', x 5 parser option sets; Next at 3 instants on every distinct schedule from sequences of <= %d tokens", k, len(tokens), k-1),
	}}
}

func TestCheck(t *testing.T) { guard.Main(t, "C07", "cron", areas, rule) }
