package cron

import (
	"fmt"
	"os"
	"path/filepath"
	"sort"
	"strings"
	"time"

	kcron "github.com/dapr/kit/cron"

	"verif/checks/c07/guard"
)

// A bigJump is a transition of a zone whose UTC offset changes by at least
// 23 hours: a whole local calendar day is skipped (Pacific/Apia 2011-12-30,
// Pacific/Kwajalein 1993-08-21, the 1844/1867 date-line changes) or repeated.
type bigJump struct {
	zone          string
	loc           *time.Location
	at            time.Time // first instant with the new offset
	before, after int       // offsets in seconds
}

func (j bigJump) String() string {
	return fmt.Sprintf("%s@%s(%+dh)", j.zone, j.at.UTC().Format("2006-01-02T15:04:05Z"), (j.after-j.before)/3600)
}

const zoneRoot = "/usr/share/zoneinfo"

// scanZones walks the system tzdata and returns every transition with an
// offset jump of >= 23 h; zones with identical jumps (aliases) are kept once,
// under the alphabetically first name. Apia and Kwajalein are always looked at.
func scanZones() []bigJump {
	var names []string
	filepath.WalkDir(zoneRoot, func(p string, d os.DirEntry, err error) error {
		if err != nil {
			return nil
		}
		rel, _ := filepath.Rel(zoneRoot, p)
		if d.IsDir() {
			if rel == "posix" || rel == "right" {
				return filepath.SkipDir
			}
			return nil
		}
		if strings.Contains(rel, ".") || rel == "posixrules" || rel == "localtime" || rel == "leapseconds" || rel == "+VERSION" {
			return nil
		}
		names = append(names, rel)
		return nil
	})
	sort.Strings(names)
	// the two zones named in the reports first, so that they are the ones kept when aliases are folded
	names = append([]string{"Pacific/Apia", "Pacific/Kwajalein"}, names...)
	seen := map[string]bool{}
	var out []bigJump
	limit := time.Date(2040, 1, 1, 0, 0, 0, 0, time.UTC)
	done := map[string]bool{}
	for _, n := range names {
		if done[n] {
			continue
		}
		done[n] = true
		loc, err := time.LoadLocation(n)
		if err != nil {
			continue
		}
		t := time.Date(1800, 1, 1, 0, 0, 0, 0, time.UTC).In(loc)
		for steps := 0; steps < 2000; steps++ {
			_, end := t.ZoneBounds()
			if end.IsZero() || end.After(limit) {
				break
			}
			_, o1 := end.Add(-time.Second).Zone()
			_, o2 := end.Zone()
			d := o2 - o1
			if d < 0 {
				d = -d
			}
			if d >= 23*3600 {
				sig := fmt.Sprintf("%d/%d/%d", end.Unix(), o1, o2)
				if !seen[sig] {
					seen[sig] = true
					out = append(out, bigJump{n, loc, end, o1, o2})
				}
			}
			t = end
		}
	}
	return out
}

// ---- spec alphabet ----------------------------------------------------------------

var (
	mdDoms   = []string{"*", "?", "1", "15", "28", "29", "30", "31", "28-31", "1,15", "29,30,31", "28,29,30,31", "*/2", "2-30/7"}
	mdDows   = []string{"*", "?", "0", "1", "2", "3", "4", "5", "6", "SAT", "1-5", "0,6"}
	mdClocks = [][2]string{{"0", "0"}, {"30", "12"}, {"0", "23"}, {"59", "23"}} // minute, hour: hours 0, 12, 23
	mdStyles = []string{"TZ=", "CRON_TZ=", "local"}                             // "local": no prefix, the start instant carries the zone
)

// startsAround lists the start instants for a jump: every day from 40 days
// before to 2 days after, every hour from 30 h before to 30 h after, and the
// seconds next to the transition.
func startsAround(j bigJump) []time.Time {
	var out []time.Time
	for d := -40; d <= 2; d++ {
		out = append(out, j.at.Add(time.Duration(d)*24*time.Hour+12*time.Hour+500*time.Millisecond))
	}
	for h := -30; h <= 30; h++ {
		out = append(out, j.at.Add(time.Duration(h)*time.Hour))
	}
	out = append(out, j.at.Add(-time.Second), j.at.Add(-time.Nanosecond), j.at.Add(time.Second))
	return out
}

func missingDayArea(thorough bool) *guard.Area {
	jumps := scanZones()
	months := []string{"*"}
	type ch struct{ j, dom int }
	var chunks []ch
	for ji := range jumps {
		for di := range mdDoms {
			chunks = append(chunks, ch{ji, di})
		}
	}
	var zn []string
	for _, j := range jumps {
		zn = append(zn, j.String())
	}
	secParser := kcron.NewParser(kcron.Second | kcron.Minute | kcron.Hour | kcron.Dom | kcron.Month | kcron.Dow | kcron.Descriptor)
	stdParser := kcron.NewParser(kcron.Minute | kcron.Hour | kcron.Dom | kcron.Month | kcron.Dow | kcron.Descriptor)
	return &guard.Area{
		Name:   "cron-missing-day",
		Chunks: len(chunks),
		Bound: fmt.Sprintf("Next on parsed schedules in every tzdata zone with an offset jump >= 23 h (%d found by scanning %s, aliases folded: %s): day-of-month in %v x day-of-week in %v x (minute,hour) in %v x month %v, as 'TZ=<zone> ...', 'CRON_TZ=<zone> ...' (6-field and 5-field parser) and without prefix with the start instant in the zone; start instants: every day from 40 days before to 2 days after the jump, every hour from 30 h before to 30 h after, and the seconds next to it",
			len(jumps), zoneRoot, strings.Join(zn, ", "), mdDoms, mdDows, mdClocks, months),
		Run: func(c *guard.Ctx, ci int) {
			k := chunks[ci]
			j := jumps[k.j]
			dom := mdDoms[k.dom]
			starts := startsAround(j)
			mons := months
			if c.Thorough {
				mons = []string{"*", fmt.Sprint(int(j.at.In(j.loc).Month())), fmt.Sprint(int(j.at.In(j.loc).Month())%12 + 1)}
			}
			for _, dow := range mdDows {
				for _, mon := range mons {
					for _, cl := range mdClocks {
						for _, style := range mdStyles {
							for pi, p := range []kcron.Parser{secParser, stdParser} {
								if pi == 1 && style != "TZ=" {
									continue // the 5-field parser once per schedule is enough: Next is shared
								}
								spec := fmt.Sprintf("%s %s %s %s %s", cl[0], cl[1], dom, mon, dow)
								if pi == 0 {
									spec = "0 " + spec
								}
								if style != "local" {
									spec = style + j.zone + " " + spec
								}
								var sched kcron.Schedule
								var err error
								c.Call("cron.Parser.Parse", func() string { return fmt.Sprintf("spec=%q", spec) }, func() { sched, err = p.Parse(spec) })
								if err != nil || sched == nil {
									continue
								}
								for _, st := range starts {
									st := st
									if style == "local" {
										st = st.In(j.loc)
									}
									var res time.Time
									c.Call("cron.Schedule.Next", func() string {
										return fmt.Sprintf("spec=%q start=%s (jump %s)", spec, st.Format(time.RFC3339Nano), j)
									}, func() { res = sched.Next(st) })
									if !res.IsZero() {
										c.NonTrivial(1)
									}
								}
							}
						}
					}
				}
			}
		},
	}
}
