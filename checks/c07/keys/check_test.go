// Package keys is the C07 part for key and certificate parsing/serialisation:
// crypto.ParseKey / SerializeKey, crypto/pem, utils.GetPEM / IsValidPEM, and
// (for every key that still parses) the key-consuming crypto entry points.
package keys

import (
	"crypto/ecdh"
	"crypto/ecdsa"
	"crypto/ed25519"
	"crypto/rsa"
	"crypto/x509"
	"encoding/base64"
	"encoding/json"
	"encoding/pem"
	"fmt"
	"sort"
	"strings"
	"testing"

	"github.com/lestrrat-go/jwx/v2/jwk"

	kcrypto "github.com/dapr/kit/crypto"
	kpem "github.com/dapr/kit/crypto/pem"
	kutils "github.com/dapr/kit/utils"

	"verif/checks/c07/guard"
	"verif/checks/c07/kc"
)

const rule = "keys: for every encoding Go can marshal (PKCS#1, SEC1, PKCS#8, PKIX, PKCS#1-public for RSA-1024 [thorough: and RSA-2048], P-224/256/384/521, Ed25519, X25519; a 3-certificate chain Ed25519->RSA->P-256; JWK JSON of RSA, EC P-256/384/521, OKP Ed25519/X25519, oct) EVERY truncation and, at every byte position, each of the mutations {0x00, 0xff, +1, flip high bit, flip low bit}, applied to the PEM text and to the DER (re-armoured), is fed to ParseKey (5 content types), DecodePEMPrivateKey, DecodePEMCertificates(Chain), IsValidPEM, GetPEM; whatever still parses goes through EncodePrivateKey / EncodeX509(Chain) / PublicKeysEqual and through SerializeKey + Encrypt/Decrypt/Sign/Verify under every algorithm name. JWK objects additionally get every single and pair substitution of member values from an 18-value alphabet. Raw keys: every length 0..64 x 16 content classes (incl. blank-only, blank-led and blank-trailed input) and every 1-/2-byte string over 15 sniffed characters. non-trivial = the input was accepted by the parser it was given to."

var contentTypes = []string{"", "application/json", "application/x-pem-file", "application/pkcs8", "text/plain"}

// ---- material ---------------------------------------------------------------

type source struct {
	name string
	base []byte
	wrap func(v []byte) []byte // builds the input handed to kit from a variant of base
}

func mustP8(s string) any {
	b, _ := pem.Decode([]byte(s))
	k, err := x509.ParsePKCS8PrivateKey(b.Bytes)
	if err != nil {
		panic(err)
	}
	return k
}

func must(b []byte, err error) []byte {
	if err != nil {
		panic(err)
	}
	return b
}

func armour(typ string) func([]byte) []byte {
	return func(v []byte) []byte { return pem.EncodeToMemory(&pem.Block{Type: typ, Bytes: v}) }
}

func ident(v []byte) []byte { return v }

type material struct {
	sources []source
	jwks    []jwkBase
	objects []namedObj
	pubs    []namedObj
}

type namedObj struct {
	name string
	v    any
}

type jwkBase struct {
	name   string
	fields map[string]any
}

func derSources(name string, typ string, der []byte) []source {
	return []source{
		{name + "/pem-text", armour(typ)(der), ident},
		{name + "/der", der, armour(typ)},
	}
}

func build(thorough bool) *material {
	m := &material{}
	add := func(name, typ string, der []byte) { m.sources = append(m.sources, derSources(name, typ, der)...) }

	rsaKeys := []struct {
		n string
		k *rsa.PrivateKey
	}{{"rsa1024", mustP8(pkcs8RSA1024).(*rsa.PrivateKey)}}
	rsa2048 := mustP8(pkcs8RSA2048).(*rsa.PrivateKey)
	if thorough {
		rsaKeys = append(rsaKeys, struct {
			n string
			k *rsa.PrivateKey
		}{"rsa2048", rsa2048})
	}
	for _, r := range rsaKeys {
		add(r.n+"/pkcs8", "PRIVATE KEY", must(x509.MarshalPKCS8PrivateKey(r.k)))
		add(r.n+"/pkcs1", "RSA PRIVATE KEY", x509.MarshalPKCS1PrivateKey(r.k))
		add(r.n+"/pkix", "PUBLIC KEY", must(x509.MarshalPKIXPublicKey(&r.k.PublicKey)))
		add(r.n+"/pkcs1-public", "RSA PUBLIC KEY", x509.MarshalPKCS1PublicKey(&r.k.PublicKey))
	}
	ecs := map[string]*ecdsa.PrivateKey{}
	for _, e := range []struct{ n, p string }{{"p224", pkcs8ECP224}, {"p256", pkcs8ECP256}, {"p384", pkcs8ECP384}, {"p521", pkcs8ECP521}} {
		k := mustP8(e.p).(*ecdsa.PrivateKey)
		ecs[e.n] = k
		add(e.n+"/pkcs8", "PRIVATE KEY", must(x509.MarshalPKCS8PrivateKey(k)))
		add(e.n+"/sec1", "EC PRIVATE KEY", must(x509.MarshalECPrivateKey(k)))
		add(e.n+"/pkix", "PUBLIC KEY", must(x509.MarshalPKIXPublicKey(&k.PublicKey)))
	}
	ed := mustP8(pkcs8Ed25519).(ed25519.PrivateKey)
	add("ed25519/pkcs8", "PRIVATE KEY", must(x509.MarshalPKCS8PrivateKey(ed)))
	add("ed25519/pkix", "PUBLIC KEY", must(x509.MarshalPKIXPublicKey(ed.Public())))
	xk := mustP8(pkcs8X25519).(*ecdh.PrivateKey)
	add("x25519/pkcs8", "PRIVATE KEY", must(x509.MarshalPKCS8PrivateKey(xk)))
	add("x25519/pkix", "PUBLIC KEY", must(x509.MarshalPKIXPublicKey(xk.PublicKey())))
	p256ecdh, _ := ecs["p256"].ECDH()

	// the RSA encodings are by far the most expensive to sweep: put them last so that a run
	// cut short by its budget has seen every other key type
	var rsaSrc, otherSrc []source
	for _, s := range m.sources {
		if strings.HasPrefix(s.name, "rsa") {
			rsaSrc = append(rsaSrc, s)
		} else {
			otherSrc = append(otherSrc, s)
		}
	}
	m.sources = otherSrc
	defer func() { m.sources = append(m.sources, rsaSrc...) }()

	// certificate chain: leaf, intermediate, root
	var ders [][]byte
	for _, c := range []string{certLeaf, certIntermediate, certRoot} {
		b, _ := pem.Decode([]byte(c))
		ders = append(ders, b.Bytes)
	}
	chain := []byte(certLeaf + certIntermediate + certRoot)
	m.sources = append(m.sources, source{"chain/pem-text", chain, ident})
	for i, n := range []string{"leaf", "intermediate", "root"} {
		i := i
		m.sources = append(m.sources, source{"chain/" + n + "-der", ders[i], func(v []byte) []byte {
			var out []byte
			for j := range ders {
				if j == i {
					out = append(out, armour("CERTIFICATE")(v)...)
				} else {
					out = append(out, armour("CERTIFICATE")(ders[j])...)
				}
			}
			return out
		}})
	}

	// JWK JSON texts (byte-level variants) and member maps (value-level variants)
	addJWK := func(name string, raw any) {
		k, err := jwk.FromRaw(raw)
		if err != nil {
			panic(err)
		}
		js, err := json.Marshal(k)
		if err != nil {
			panic(err)
		}
		m.sources = append(m.sources, source{"jwk/" + name + "/json-text", js, ident})
		var f map[string]any
		json.Unmarshal(js, &f)
		m.jwks = append(m.jwks, jwkBase{name, f})
	}
	addJWK("rsa-private", rsaKeys[0].k)
	addJWK("rsa-public", &rsaKeys[0].k.PublicKey)
	for _, n := range []string{"p256", "p384", "p521"} {
		addJWK(n+"-private", ecs[n])
		addJWK(n+"-public", &ecs[n].PublicKey)
	}
	addJWK("ed25519-private", ed)
	addJWK("ed25519-public", ed.Public())
	{
		// jwx has its own x25519 types; build the JWK by hand
		x := base64.RawURLEncoding.EncodeToString(xk.PublicKey().Bytes())
		d := base64.RawURLEncoding.EncodeToString(xk.Bytes())
		priv := map[string]any{"kty": "OKP", "crv": "X25519", "x": x, "d": d}
		pub := map[string]any{"kty": "OKP", "crv": "X25519", "x": x}
		for _, e := range []struct {
			n string
			f map[string]any
		}{{"x25519-private", priv}, {"x25519-public", pub}} {
			js, _ := json.Marshal(e.f)
			m.sources = append(m.sources, source{"jwk/" + e.n + "/json-text", js, ident})
			m.jwks = append(m.jwks, jwkBase{e.n, e.f})
		}
	}
	addJWK("oct16", kc.Fill(16, 1))
	addJWK("oct32", kc.Fill(32, 1))

	edCopy := ed
	m.objects = []namedObj{
		{"*rsa.PrivateKey(1024)", rsaKeys[0].k}, {"*rsa.PrivateKey(2048)", rsa2048}, {"rsa.PrivateKey value", *rsaKeys[0].k},
		{"*ecdsa.PrivateKey(P-224)", ecs["p224"]}, {"*ecdsa.PrivateKey(P-256)", ecs["p256"]}, {"*ecdsa.PrivateKey(P-384)", ecs["p384"]}, {"*ecdsa.PrivateKey(P-521)", ecs["p521"]},
		{"ecdsa.PrivateKey value", *ecs["p256"]},
		{"ed25519.PrivateKey", ed}, {"*ed25519.PrivateKey", &edCopy},
		{"*ecdh.PrivateKey(X25519)", xk}, {"*ecdh.PrivateKey(P-256)", p256ecdh},
		{"*rsa.PublicKey", &rsaKeys[0].k.PublicKey}, {"*ecdsa.PublicKey(P-256)", &ecs["p256"].PublicKey}, {"ed25519.PublicKey", ed.Public()},
		{"*ecdh.PublicKey(X25519)", xk.PublicKey()},
		{"[]byte(32)", kc.Fill(32, 1)}, {"[]byte(0)", []byte{}}, {"string", "key"}, {"int", 42}, {"struct{}", struct{}{}},
	}
	m.pubs = []namedObj{
		{"*rsa.PublicKey(1024)", &rsaKeys[0].k.PublicKey}, {"*rsa.PublicKey(2048)", &rsa2048.PublicKey},
		{"*ecdsa.PublicKey(P-224)", &ecs["p224"].PublicKey}, {"*ecdsa.PublicKey(P-256)", &ecs["p256"].PublicKey}, {"*ecdsa.PublicKey(P-521)", &ecs["p521"].PublicKey},
		{"ed25519.PublicKey", ed.Public()}, {"*ecdh.PublicKey(X25519)", xk.PublicKey()},
		{"rsa.PublicKey value", rsaKeys[0].k.PublicKey}, {"[]byte", []byte{1}}, {"string", "x"}, {"nil", nil}, {"*rsa.PrivateKey", rsaKeys[0].k},
	}
	return m
}

// ---- variants ---------------------------------------------------------------

var mutNames = []string{"trunc", "set00", "setff", "inc", "flip80", "flip01"}

// variant returns variant kind k at position p of base (ok=false if it equals
// the base or does not exist).
func variant(base []byte, p, k int) ([]byte, bool) {
	if k == 0 {
		if p > len(base) {
			return nil, false
		}
		return append([]byte{}, base[:p]...), true // p == len(base): the pristine encoding
	}
	if p >= len(base) {
		return nil, false
	}
	b := append([]byte{}, base...)
	switch k {
	case 1:
		b[p] = 0x00
	case 2:
		b[p] = 0xff
	case 3:
		b[p]++
	case 4:
		b[p] ^= 0x80
	case 5:
		b[p] ^= 0x01
	}
	if b[p] == base[p] {
		return nil, false
	}
	// identical to an earlier kind at this position?
	for e := 1; e < k; e++ {
		var o byte
		switch e {
		case 1:
			o = 0
		case 2:
			o = 0xff
		case 3:
			o = base[p] + 1
		case 4:
			o = base[p] ^ 0x80
		}
		if o == b[p] {
			return nil, false
		}
	}
	return b, true
}

func clip(b []byte) string {
	s := fmt.Sprintf("%q", b)
	if len(s) > 400 {
		s = s[:400] + "...\""
	}
	return s
}

// ---- consumers --------------------------------------------------------------

func consume(c *guard.Ctx, in []byte, id string) {
	desc := func() string { return id + " input=" + clip(in) }
	var suiteDone []string // the same bytes usually parse to the same key under several content types
	for _, ct := range contentTypes {
		var k jwk.Key
		var err error
		ct := ct
		c.Call("crypto.ParseKey", func() string { return "contentType=" + fmt.Sprintf("%q ", ct) + desc() }, func() { k, err = kcrypto.ParseKey(in, ct) })
		if err == nil && k != nil {
			c.NonTrivial(1)
			js, _ := json.Marshal(k)
			dup := false
			for _, d := range suiteDone {
				dup = dup || d == string(js)
			}
			if dup && len(js) > 2 {
				continue
			}
			suiteDone = append(suiteDone, string(js))
			kc.Suite(c, k, func() string { return fmt.Sprintf("ParseKey(contentType=%q, %s)", ct, desc()) })
		}
	}
	var priv any
	var err error
	c.Call("pem.DecodePEMPrivateKey", desc, func() {
		s, e := kpem.DecodePEMPrivateKey(in)
		priv, err = s, e
	})
	if err == nil && priv != nil {
		c.NonTrivial(1)
		c.Call("pem.EncodePrivateKey", func() string { return "key=DecodePEMPrivateKey(" + desc() + ")" }, func() { kpem.EncodePrivateKey(priv) })
	}
	var certs []*x509.Certificate
	c.Call("pem.DecodePEMCertificates", desc, func() { certs, err = kpem.DecodePEMCertificates(in) })
	if err == nil {
		c.NonTrivial(1)
		cd := func() string { return "certs=DecodePEMCertificates(" + desc() + ")" }
		for _, ce := range certs {
			ce := ce
			c.Call("pem.EncodeX509", cd, func() { kpem.EncodeX509(ce) })
			c.Call("pem.PublicKeysEqual", cd, func() { kpem.PublicKeysEqual(ce.PublicKey, certs[0].PublicKey) })
		}
		c.Call("pem.EncodeX509Chain", cd, func() { kpem.EncodeX509Chain(certs) })
	}
	c.Call("pem.DecodePEMCertificatesChain", desc, func() { _, err = kpem.DecodePEMCertificatesChain(in) })
	if err == nil {
		c.NonTrivial(1)
	}
	s := string(in)
	var ok bool
	c.Call("utils.IsValidPEM", desc, func() { ok = kutils.IsValidPEM(s) })
	if ok {
		c.NonTrivial(1)
	}
	c.Call("utils.GetPEM", desc, func() { kutils.GetPEM(s) })
}

// ---- JWK member alphabet ------------------------------------------------------

func b64(n int) string { return base64.RawURLEncoding.EncodeToString(kc.Fill(n, 1)) }

type absent struct{}

var valueAlphabet = []any{
	absent{}, "", "AA", "AQAB", b64(16), b64(31), b64(32), b64(33), b64(64), b64(66),
	"!!", "A", float64(1), nil, true, []any{}, map[string]any{}, base64.RawURLEncoding.EncodeToString(make([]byte, 256)),
}

var crvAlphabet = []any{absent{}, "", "Ed25519", "X25519", "Ed448", "P-256", "P-384", "P-521", "P-224", "secp256k1", float64(1), nil}
var ktyAlphabet = []any{absent{}, "", "RSA", "EC", "OKP", "oct", "foo", float64(1), nil}

func alphabetFor(member string) []any {
	switch member {
	case "kty":
		return ktyAlphabet
	case "crv":
		return crvAlphabet
	}
	return valueAlphabet
}

func members(f map[string]any) []string {
	var out []string
	for k := range f {
		out = append(out, k)
	}
	sort.Strings(out)
	return out
}

func substitute(f map[string]any, subs map[string]any) []byte {
	o := map[string]any{}
	for k, v := range f {
		o[k] = v
	}
	for k, v := range subs {
		if _, isAbsent := v.(absent); isAbsent {
			delete(o, k)
		} else {
			o[k] = v
		}
	}
	b, _ := json.Marshal(o)
	return b
}

// ---- areas --------------------------------------------------------------------

const posPerChunk = 40

func areas(thorough bool) []*guard.Area {
	m := build(thorough)

	// area 1: byte-level variants
	type bchunk struct{ src, lo, hi int }
	var bchunks []bchunk
	total := 0
	for si, s := range m.sources {
		for lo := 0; lo <= len(s.base); lo += posPerChunk {
			hi := lo + posPerChunk
			if hi > len(s.base)+1 {
				hi = len(s.base) + 1
			}
			bchunks = append(bchunks, bchunk{si, lo, hi})
		}
		total += len(s.base)
	}
	var names []string
	for _, s := range m.sources {
		names = append(names, fmt.Sprintf("%s(%dB)", s.name, len(s.base)))
	}
	bytesArea := &guard.Area{
		Name:   "keys-bytes",
		Chunks: len(bchunks),
		Bound:  fmt.Sprintf("every truncation and 5 single-byte mutation classes at every position of %d encodings (%d bytes in total): %s", len(m.sources), total, strings.Join(names, ", ")),
		Run: func(c *guard.Ctx, ci int) {
			bc := bchunks[ci]
			s := m.sources[bc.src]
			for p := bc.lo; p < bc.hi; p++ {
				for k := range mutNames {
					v, ok := variant(s.base, p, k)
					if !ok {
						continue
					}
					consume(c, s.wrap(v), fmt.Sprintf("src=%s var=%s@%d", s.name, mutNames[k], p))
				}
			}
		},
	}

	// area 2: JWK member substitutions: chunk = (base, first member)
	type jchunk struct {
		base  int
		first string
	}
	var jchunks []jchunk
	for bi, b := range m.jwks {
		for _, mem := range members(b.fields) {
			jchunks = append(jchunks, jchunk{bi, mem})
		}
	}
	jwkArea := &guard.Area{
		Name:   "keys-jwk-members",
		Chunks: len(jchunks),
		Bound:  fmt.Sprintf("%d JWK objects (RSA, EC P-256/384/521, OKP Ed25519/X25519, oct; private and public): every single member and every pair of members (quick: RSA CRT members dp,dq,qi only singly) replaced by every value of the member alphabet (values: %d, crv: %d, kty: %d)", len(m.jwks), len(valueAlphabet), len(crvAlphabet), len(ktyAlphabet)),
		Run: func(c *guard.Ctx, ci int) {
			jc := jchunks[ci]
			b := m.jwks[jc.base]
			mems := members(b.fields)
			for _, v1 := range alphabetFor(jc.first) {
				in := substitute(b.fields, map[string]any{jc.first: v1})
				consume(c, in, fmt.Sprintf("jwk=%s %s:=%s", b.name, jc.first, jv(v1)))
				for _, m2 := range mems {
					if m2 <= jc.first {
						continue
					}
					if !thorough && b.name == "rsa-private" && (crt[jc.first] || crt[m2]) {
						continue // quick: CRT members of the RSA private key only singly
					}
					for _, v2 := range alphabetFor(m2) {
						in := substitute(b.fields, map[string]any{jc.first: v1, m2: v2})
						consume(c, in, fmt.Sprintf("jwk=%s %s:=%s %s:=%s", b.name, jc.first, jv(v1), m2, jv(v2)))
					}
				}
			}
		},
	}

	// area 3: raw keys and in-memory key objects
	classes := []struct {
		name string
		gen  func(n int) []byte
	}{
		{"zero", func(n int) []byte { return make([]byte, n) }},
		{"ff", func(n int) []byte { return []byte(strings.Repeat("\xff", n)) }},
		{"A", func(n int) []byte { return []byte(strings.Repeat("A", n)) }},
		{"A+pad", func(n int) []byte { return []byte(pre("", n, "==\n")) }},
		{"brace", func(n int) []byte { return []byte(pre("{", n, "")) }},
		{"dashes", func(n int) []byte { return []byte(pre("-----", n, "")) }},
		{"urlsafe", func(n int) []byte { return []byte(strings.Repeat("-_", n)[:n]) }},
		// blank input and blank-led input: what a secret file holding only a
		// newline, or a key pasted with leading blank lines, looks like
		{"space", func(n int) []byte { return []byte(strings.Repeat(" ", n)) }},
		{"tab", func(n int) []byte { return []byte(strings.Repeat("\t", n)) }},
		{"newline", func(n int) []byte { return []byte(strings.Repeat("\n", n)) }},
		{"crlf", func(n int) []byte { return []byte(strings.Repeat("\r\n", n)[:n]) }},
		{"blank-mix", func(n int) []byte { return []byte(strings.Repeat(" \t\r\n\v\f", n)[:n]) }},
		{"blank+brace", func(n int) []byte { return []byte(strings.Repeat("\n ", n)[:n] + "{") }},
		{"blank+dashes", func(n int) []byte { return []byte(strings.Repeat("\n ", n)[:n] + "-----BEGIN") }},
		{"blank+A", func(n int) []byte { return []byte(strings.Repeat("\n ", n)[:n/2] + strings.Repeat("A", n-n/2)) }},
		{"A+blank", func(n int) []byte { return []byte(strings.Repeat("A", n-n/2) + strings.Repeat("\n ", n)[:n/2]) }},
	}
	rawArea := &guard.Area{
		Name:   "keys-raw-and-objects",
		Chunks: 2,
		Bound:  "ParseKey on raw byte strings of every length 0..64 x 16 content classes (incl. blank-only and blank-led input) x 5 content types, plus every 1- and 2-byte string over the 15 characters the format sniffing inspects; EncodePrivateKey / jwk.FromRaw+SerializeKey on every key object type; PublicKeysEqual on all ordered pairs of public key objects",
		Run: func(c *guard.Ctx, ci int) {
			if ci == 0 {
				for _, cl := range classes {
					for n := 0; n <= 64; n++ {
						consume(c, cl.gen(n), fmt.Sprintf("raw class=%s len=%d", cl.name, n))
					}
				}
				// every one- and two-byte input whose bytes come from the
				// characters the format sniffing looks at
				sniff := []byte(" \t\r\n{}[]\"-=A\x00\xff")
				for _, a := range sniff {
					consume(c, []byte{a}, fmt.Sprintf("raw single byte %q", a))
					for _, b := range sniff {
						consume(c, []byte{a, b}, fmt.Sprintf("raw two bytes %q", []byte{a, b}))
					}
				}
				return
			}
			for _, o := range m.objects {
				o := o
				d := func() string { return "object=" + o.name }
				c.Call("pem.EncodePrivateKey", d, func() { kpem.EncodePrivateKey(o.v) })
				k, err := jwk.FromRaw(o.v)
				if err == nil {
					c.NonTrivial(1)
					kc.Suite(c, k, func() string { return "jwk.FromRaw(" + o.name + ")" })
				}
			}
			for _, a := range m.pubs {
				for _, b := range m.pubs {
					a, b := a, b
					c.Call("pem.PublicKeysEqual", func() string { return "a=" + a.name + " b=" + b.name }, func() { kpem.PublicKeysEqual(a.v, b.v) })
				}
			}
		},
	}
	return []*guard.Area{rawArea, jwkArea, bytesArea}
}

var crt = map[string]bool{"dp": true, "dq": true, "qi": true}

func pre(p string, n int, suf string) string {
	s := p + strings.Repeat("A", n) + suf
	if len(p) > 0 && len(s) > n && n >= len(p) {
		s = s[:n]
	}
	return s
}

func jv(v any) string {
	if _, ok := v.(absent); ok {
		return "<absent>"
	}
	b, _ := json.Marshal(v)
	if len(b) > 40 {
		return fmt.Sprintf("%s...(%d chars)", b[:40], len(b))
	}
	return string(b)
}

func TestCheck(t *testing.T) { guard.Main(t, "C07", "keys-pem", areas, rule) }
