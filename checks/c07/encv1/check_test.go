// Package encv1 is the C07 part for schemes/enc/v1: Decrypt/Encrypt on
// malformed documents and options, and the JSON (un)marshalling of the
// manifest, cipher and key-algorithm types.
package encv1

import (
	"bytes"
	"crypto/aes"
	"crypto/cipher"
	"crypto/hmac"
	"crypto/sha256"
	"encoding/base64"
	"encoding/binary"
	"encoding/json"
	"errors"
	"fmt"
	"io"
	"strings"
	"testing"

	"golang.org/x/crypto/chacha20poly1305"
	"golang.org/x/crypto/hkdf"

	v1 "github.com/dapr/kit/schemes/enc/v1"

	"verif/checks/c07/guard"
	"verif/checks/c07/kc"
)

const rule = "enc/v1: documents are built by a small encoder written from the scheme's README (fixed file key and nonce prefix, checked once against kit's Decrypt). Decrypt (output stream read to the end) on EVERY truncation and 5 single-byte mutation classes at every position of 4 valid short documents x 3 reader styles x 2 key-name options x 4 UnwrapKeyFn behaviours; on every sequence of <= 3 header lines (thorough 4) from a line alphabet, with and without a final newline, with and without a body; on a correctly MAC'd header around EVERY manifest of the product of member alphabets (k x kw x wfk x cph x np); on valid headers followed by bodies cut or mutated at every position (short bodies) and at every position within 18 bytes of a segment boundary (1- and 2-segment bodies). thorough: every pair of header positions mutated together (3x3 classes) on two documents. Encrypt on the product of option alphabets x plaintext sizes x reader styles. Manifest / Cipher / KeyAlgorithm: json.Unmarshal, UnmarshalJSON, MarshalJSON, Validate, ID, New*FromID on token alphabets. A panic in the background goroutine kills the worker subprocess and is attributed through the in-flight marker. non-trivial = the call returned a nil error."

// ---- reference encoder (from schemes/enc/v1/README.md) ---------------------------

var (
	fileKey     = kc.Fill(32, 0x11)
	noncePrefix = kc.Fill(7, 0x51)
	wfk         = kc.Fill(40, 0x21) // what "wrapping" produced; the unwrap function below ignores it
)

func hk(ikm, salt []byte, info string) []byte {
	out := make([]byte, 32)
	if _, err := io.ReadFull(hkdf.New(sha256.New, ikm, salt, []byte(info)), out); err != nil {
		panic(err)
	}
	return out
}

func headerFor(manifest []byte, fk []byte) []byte {
	msg := append(append([]byte("dapr.io/enc/v1\n"), manifest...), '\n')
	m := hmac.New(sha256.New, hk(fk, nil, "header"))
	m.Write(msg)
	return append(append(msg, base64.StdEncoding.EncodeToString(m.Sum(nil))...), '\n')
}

func manifestJSON(keyName string, kw, cph int) []byte {
	m := map[string]any{"kw": kw, "wfk": wfk, "cph": cph, "np": noncePrefix}
	if keyName != "" {
		m["k"] = keyName
	}
	b, _ := json.Marshal(m)
	return b
}

func aeadFor(cph int) cipher.AEAD {
	pk := hk(fileKey, noncePrefix, "payload")
	if cph == 2 {
		a, _ := chacha20poly1305.New(pk)
		return a
	}
	b, _ := aes.NewCipher(pk)
	a, _ := cipher.NewGCM(b)
	return a
}

const segSize = 64 << 10

func body(plain []byte, cph int) []byte {
	a := aeadFor(cph)
	var out []byte
	for i := uint32(0); ; i++ {
		n := len(plain)
		last := n <= segSize
		if !last {
			n = segSize
		}
		if n == 0 && i > 0 {
			break
		}
		nonce := make([]byte, 12)
		copy(nonce, noncePrefix)
		binary.BigEndian.PutUint32(nonce[7:], i)
		if last {
			nonce[11] = 1
		}
		if n > 0 {
			out = a.Seal(out, nonce, plain[:n], nil)
		}
		plain = plain[n:]
		if last {
			break
		}
	}
	return out
}

// ---- readers and unwrap behaviours --------------------------------------------------

type chunkReader struct {
	b []byte
	n int
}

func (r *chunkReader) Read(p []byte) (int, error) {
	if len(r.b) == 0 {
		return 0, io.EOF
	}
	n := r.n
	if n > len(p) {
		n = len(p)
	}
	if n > len(r.b) {
		n = len(r.b)
	}
	copy(p, r.b[:n])
	r.b = r.b[n:]
	return n, nil
}

// dataThenErr returns its data and then a non-EOF error (together with the last bytes).
type dataThenErr struct{ b []byte }

func (r *dataThenErr) Read(p []byte) (int, error) {
	n := copy(p, r.b)
	r.b = r.b[n:]
	if len(r.b) == 0 {
		return n, errors.New("source failed")
	}
	return n, nil
}

var readerStyles = []string{"bytes.Reader", "1-byte reads", "7-byte reads"}

func mkReader(style string, b []byte) io.Reader {
	switch style {
	case "1-byte reads":
		return &chunkReader{b, 1}
	case "7-byte reads":
		return &chunkReader{b, 7}
	case "data then error":
		return &dataThenErr{b}
	}
	return bytes.NewReader(b)
}

var unwrapStyles = []string{"file key", "error", "5-byte key", "33-byte key"}

func mkUnwrap(style string) v1.UnwrapKeyFn {
	return func(wrapped []byte, alg, keyName string, nonce, tag []byte) ([]byte, error) {
		switch style {
		case "error":
			return nil, errors.New("no such key")
		case "5-byte key":
			return fileKey[:5], nil
		case "33-byte key":
			return append(append([]byte{}, fileKey...), 0), nil
		}
		return fileKey, nil
	}
}

func clip(b []byte) string {
	if len(b) > 300 {
		return fmt.Sprintf("%q...(%d bytes)", b[:300], len(b))
	}
	return fmt.Sprintf("%q", b)
}

// decrypt runs one Decrypt case to the end of the output stream.
func decrypt(c *guard.Ctx, id string, doc []byte, style, keyName, unwrap string) {
	var err error
	c.Call("enc/v1.Decrypt", func() string {
		return fmt.Sprintf("%s reader=%s opts.KeyName=%q unwrap=%s doc=%s", id, style, keyName, unwrap, clip(doc))
	}, func() {
		var out io.Reader
		out, err = v1.Decrypt(mkReader(style, doc), v1.DecryptOptions{UnwrapKeyFn: mkUnwrap(unwrap), KeyName: keyName})
		if err == nil {
			_, err = io.Copy(io.Discard, out)
		}
	})
	if err == nil {
		c.NonTrivial(1)
	}
}

// ---- byte variants ---------------------------------------------------------------------

var mutNames = []string{"trunc", "set00", "setff", "inc", "flip80", "flip01"}

func variant(base []byte, p, k int) ([]byte, bool) {
	if k == 0 {
		if p > len(base) {
			return nil, false
		}
		return append([]byte{}, base[:p]...), true
	}
	if p >= len(base) {
		return nil, false
	}
	b := append([]byte{}, base...)
	vals := []byte{0, 0x00, 0xff, base[p] + 1, base[p] ^ 0x80, base[p] ^ 0x01}
	b[p] = vals[k]
	if b[p] == base[p] {
		return nil, false
	}
	for e := 1; e < k; e++ {
		if vals[e] == b[p] {
			return nil, false
		}
	}
	return b, true
}

type doc struct {
	name string
	b    []byte
	hdr  int // header length
}

func docs() []doc {
	mk := func(name, keyName string, kw, cph int, plain []byte) doc {
		h := headerFor(manifestJSON(keyName, kw, cph), fileKey)
		return doc{name, append(append([]byte{}, h...), body(plain, cph)...), len(h)}
	}
	return []doc{
		mk("aesgcm/A256KW/named/20B", "mykey", 1, 1, kc.Fill(20, 1)),
		mk("chacha/RSA-OAEP-256/unnamed/20B", "", 5, 2, kc.Fill(20, 1)),
		mk("aesgcm/A128CBC-NOPAD/named/empty", "k/1", 2, 1, nil),
		mk("aesgcm/A256CBC-NOPAD/named/1B", "k", 4, 1, []byte{7}),
	}
}

// ---- areas -----------------------------------------------------------------------------

func areas(thorough bool) []*guard.Area {
	ds := docs()
	// sanity: the reference encoder and kit agree on pristine documents (else the harness is wrong)
	for _, d := range ds {
		out, err := v1.Decrypt(bytes.NewReader(d.b), v1.DecryptOptions{UnwrapKeyFn: mkUnwrap("file key"), KeyName: "x"})
		if err == nil {
			_, err = io.Copy(io.Discard, out)
		}
		if err != nil {
			panic("reference document " + d.name + " is not accepted by kit: " + err.Error())
		}
	}
	as := []*guard.Area{docBytesArea(ds), linesArea(thorough), manifestArea(), bodyArea(thorough), encryptArea(), jsonTypesArea()}
	if thorough {
		as = append(as, doubleArea(ds[0]), doubleArea(ds[1]))
	}
	return as
}

// doubleArea: every pair of header positions mutated together (thorough only).
func doubleArea(d doc) *guard.Area {
	kinds := []int{1, 3, 5} // set00, inc, flip01
	return &guard.Area{
		Name: "encv1-header-double-mutations/" + d.name, Chunks: d.hdr,
		Bound: fmt.Sprintf("every pair of positions p<q of the %d-byte header of %s, each mutated with one of {set00, inc, flip01} (9 combinations per pair), bytes.Reader, unwrap returns the file key", d.hdr, d.name),
		Run: func(c *guard.Ctx, p int) {
			for _, k1 := range kinds {
				v1, ok := variant(d.b, p, k1)
				if !ok {
					continue
				}
				for q := p + 1; q < d.hdr; q++ {
					for _, k2 := range kinds {
						v2, ok := variant(v1, q, k2)
						if !ok {
							continue
						}
						decrypt(c, fmt.Sprintf("doc=%s var=%s@%d+%s@%d", d.name, mutNames[k1], p, mutNames[k2], q), v2, "bytes.Reader", "", "file key")
					}
				}
			}
		},
	}
}

const posPerChunk = 24

func docBytesArea(ds []doc) *guard.Area {
	type ch struct{ d, lo, hi int }
	var chunks []ch
	for di, d := range ds {
		for lo := 0; lo <= len(d.b); lo += posPerChunk {
			hi := lo + posPerChunk
			if hi > len(d.b)+1 {
				hi = len(d.b) + 1
			}
			chunks = append(chunks, ch{di, lo, hi})
		}
	}
	var names []string
	for _, d := range ds {
		names = append(names, fmt.Sprintf("%s(%dB, header %dB)", d.name, len(d.b), d.hdr))
	}
	return &guard.Area{
		Name: "encv1-document-bytes", Chunks: len(chunks),
		Bound: "every truncation and 5 single-byte mutation classes at every position of the whole document (header and body) for " + strings.Join(names, ", ") + " x readers " + strings.Join(readerStyles, "/") + " x opts.KeyName {\"\", \"override\"} x UnwrapKeyFn {" + strings.Join(unwrapStyles, ", ") + "}",
		Run: func(c *guard.Ctx, ci int) {
			k := chunks[ci]
			d := ds[k.d]
			for p := k.lo; p < k.hi; p++ {
				for m := range mutNames {
					v, ok := variant(d.b, p, m)
					if !ok {
						continue
					}
					for _, rs := range readerStyles {
						for _, kn := range []string{"", "override"} {
							for _, us := range unwrapStyles {
								decrypt(c, fmt.Sprintf("doc=%s var=%s@%d", d.name, mutNames[m], p), v, rs, kn, us)
							}
						}
					}
				}
			}
		},
	}
}

func linesArea(thorough bool) *guard.Area {
	validManifest := manifestJSON("mykey", 1, 1)
	h := headerFor(validManifest, fileKey)
	mac := strings.Split(string(h), "\n")[2]
	long := func(n int) string { return strings.Repeat("a", n) }
	lines := []struct{ name, s string }{
		{"empty", ""}, {"scheme", "dapr.io/enc/v1"}, {"scheme-v2", "dapr.io/enc/v2"}, {"manifest", string(validManifest)}, {"mac", mac},
		{"{}", "{}"}, {"null", "null"}, {"x", "x"}, {"CR", "\r"}, {"mac-unpadded", strings.TrimRight(mac, "=")},
		{"511B", long(511)}, {"512B", long(512)}, {"65521B", long(65521)}, {"65536B", long(65536)}, {"70000B", long(70000)},
	}
	maxLines := 3
	if thorough {
		maxLines = 4
	}
	// chunk = first line (or the empty sequence)
	return &guard.Area{
		Name: "encv1-header-lines", Chunks: len(lines) + 1,
		Bound: fmt.Sprintf("every sequence of 0..%d lines over a %d-line alphabet (scheme name, other scheme, valid manifest, its MAC, unpadded MAC, {}, null, x, CR, empty, lines of 511/512/65521/65536/70000 bytes), last line with and without newline, followed by nothing or 20 bytes, x 3 readers", maxLines, len(lines)),
		Run: func(c *guard.Ctx, ci int) {
			emit := func(seq []int) {
				var sb strings.Builder
				var names []string
				for _, i := range seq {
					sb.WriteString(lines[i].s)
					sb.WriteByte('\n')
					names = append(names, lines[i].name)
				}
				full := sb.String()
				for _, finalNL := range []bool{true, false} {
					if !finalNL && len(seq) == 0 {
						continue
					}
					for _, tail := range []string{"", string(kc.Fill(20, 0x80))} {
						s := full
						if !finalNL {
							s = s[:len(s)-1]
						}
						s += tail
						for _, rs := range readerStyles {
							if rs == "1-byte reads" && len(s) > 4096 {
								continue // same bytes, only slower
							}
							decrypt(c, fmt.Sprintf("lines=%v finalNewline=%v tail=%dB", names, finalNL, len(tail)), []byte(s), rs, "", "file key")
						}
					}
				}
			}
			if ci == 0 {
				emit(nil)
				return
			}
			var rec func(seq []int)
			rec = func(seq []int) {
				emit(seq)
				if len(seq) == maxLines {
					return
				}
				for i := range lines {
					rec(append(append([]int{}, seq...), i))
				}
			}
			rec([]int{ci - 1})
		},
	}
}

type absent struct{}

func manifestArea() *guard.Area {
	b64 := func(n int) string { return base64.StdEncoding.EncodeToString(kc.Fill(n, 1)) }
	raw := func(s string) json.RawMessage { return json.RawMessage(s) }
	ks := []any{absent{}, raw(`""`), raw(`"key"`), raw(`1`), raw(`null`), raw(`{}`)}
	kws := []any{absent{}, raw(`0`), raw(`1`), raw(`2`), raw(`3`), raw(`4`), raw(`5`), raw(`6`), raw(`-1`), raw(`"1"`), raw(`"A256KW"`), raw(`null`), raw(`1.5`), raw(`1e99`), raw(`true`), raw(`[]`), raw(`{}`), raw(`99999999999999999999`)}
	wfks := []any{absent{}, raw(`""`), raw(`"AA=="`), raw(`"` + b64(40) + `"`), raw(`"!!"`), raw(`1`), raw(`null`), raw(`[]`)}
	cphs := []any{absent{}, raw(`0`), raw(`1`), raw(`2`), raw(`3`), raw(`"1"`), raw(`null`), raw(`-1`), raw(`99999999999999999999`)}
	nps := []any{absent{}, raw(`""`), raw(`"` + b64(7) + `"`), raw(`"` + b64(6) + `"`), raw(`"` + b64(8) + `"`), raw(`"!!"`), raw(`1`), raw(`null`)}
	build := func(k, kw, w, cp, np any) []byte {
		var sb strings.Builder
		sb.WriteByte('{')
		first := true
		add := func(name string, v any) {
			r, ok := v.(json.RawMessage)
			if !ok {
				return
			}
			if !first {
				sb.WriteByte(',')
			}
			first = false
			sb.WriteString(`"` + name + `":` + string(r))
		}
		add("k", k)
		add("kw", kw)
		add("wfk", w)
		add("cph", cp)
		add("np", np)
		sb.WriteByte('}')
		return []byte(sb.String())
	}
	return &guard.Area{
		Name: "encv1-manifests", Chunks: len(kws),
		Bound: fmt.Sprintf("every manifest of the product k(%d) x kw(%d) x wfk(%d) x cph(%d) x np(%d): json.Unmarshal into Manifest, Validate, json.Marshal; Decrypt of scheme line + manifest + MAC computed for that manifest + 36-byte body", len(ks), len(kws), len(wfks), len(cphs), len(nps)),
		Run: func(c *guard.Ctx, ci int) {
			kw := kws[ci]
			tail := body(kc.Fill(20, 1), 1)
			for _, k := range ks {
				for _, w := range wfks {
					for _, cp := range cphs {
						for _, np := range nps {
							mj := build(k, kw, w, cp, np)
							d := func() string { return "manifest=" + string(mj) }
							var m v1.Manifest
							var err error
							c.Call("enc/v1.Manifest(json.Unmarshal)", d, func() { err = json.Unmarshal(mj, &m) })
							c.Call("enc/v1.Manifest.Validate", d, func() {
								if e := m.Validate(); err == nil {
									err = e
								}
							})
							if err == nil {
								c.NonTrivial(1)
							}
							c.Call("enc/v1.Manifest(json.Marshal)", d, func() { json.Marshal(&m) })
							doc := append(headerFor(mj, fileKey), tail...)
							decrypt(c, "correctly MAC'd manifest="+string(mj), doc, "bytes.Reader", "", "file key")
						}
					}
				}
			}
		},
	}
}

func bodyArea(thorough bool) *guard.Area {
	type bd struct {
		name string
		n    int
		cph  int
	}
	bodies := []bd{{"S-1", segSize - 1, 1}, {"S", segSize, 1}, {"S+1", segSize + 1, 2}, {"2S", 2 * segSize, 1}}
	if thorough {
		bodies = append(bodies, bd{"2S+1", 2*segSize + 1, 2}, bd{"3S", 3 * segSize, 1})
	}
	return &guard.Area{
		Name: "encv1-bodies", Chunks: len(bodies),
		Bound: "valid header followed by a valid body of S-1, S, S+1, 2S (thorough: 2S+1, 3S) plaintext bytes (S = 65536), cut at / mutated (5 classes) at every position within 18 bytes of the start, of every encrypted-segment boundary and of the end; bytes.Reader and 7-byte reads; plus a source that fails after the data",
		Run: func(c *guard.Ctx, ci int) {
			b := bodies[ci]
			h := headerFor(manifestJSON("mykey", 1, b.cph), fileKey)
			ct := body(kc.Fill(b.n, 1), b.cph)
			full := append(append([]byte{}, h...), ct...)
			marks := map[int]bool{}
			for boundary := 0; boundary <= len(ct)+18; boundary += segSize + 16 {
				for d := -18; d <= 18; d++ {
					marks[boundary+d] = true
				}
			}
			for d := -18; d <= 0; d++ {
				marks[len(ct)+d] = true
			}
			for p := 0; p <= len(ct); p++ {
				if !marks[p] {
					continue
				}
				for m := range mutNames {
					v, ok := variant(full, len(h)+p, m)
					if !ok {
						continue
					}
					for _, rs := range []string{"bytes.Reader", "7-byte reads", "data then error"} {
						if rs == "data then error" && m != 0 {
							continue
						}
						decrypt(c, fmt.Sprintf("body=%s(%d bytes) var=%s@body+%d", b.name, len(ct), mutNames[m], p), v, rs, "", "file key")
					}
				}
			}
		},
	}
}

func encryptArea() *guard.Area {
	algs := []v1.KeyAlgorithm{"", "AES", "RSA", "A256KW", "A128CBC-NOPAD", "A192CBC-NOPAD", "A256CBC-NOPAD", "RSA-OAEP-256", "bogus", "a256kw"}
	bogus, empty, gcm, cc := v1.Cipher("bogus"), v1.Cipher(""), v1.CipherAESGCM, v1.CipherChaCha20Poly1305
	ciphers := []struct {
		name string
		c    *v1.Cipher
	}{{"nil", nil}, {"AES-GCM", &gcm}, {"CHACHA20-POLY1305", &cc}, {"bogus", &bogus}, {"empty", &empty}}
	wraps := []string{"40-byte key", "error", "nil key", "70000-byte key", "nil func"}
	sizes := []int{0, 1, segSize - 1, segSize, segSize + 1}
	return &guard.Area{
		Name: "encv1-encrypt-options", Chunks: len(algs),
		Bound: fmt.Sprintf("Encrypt (output read to the end) on the product Algorithm(%d) x Cipher(%d) x WrapKeyFn behaviour(%d) x KeyName{\"\",k} x {OmitKeyName, DecryptionKeyName} x plaintext size %v x source {nil, bytes.Reader, 7-byte reads (small sizes), fails after the data}; Decrypt with nil stream / nil UnwrapKeyFn", len(algs), len(ciphers), len(wraps), sizes),
		Run: func(c *guard.Ctx, ci int) {
			alg := algs[ci]
			if ci == 0 {
				for _, in := range []io.Reader{nil, bytes.NewReader(nil)} {
					for _, fn := range []v1.UnwrapKeyFn{nil, mkUnwrap("file key")} {
						in, fn := in, fn
						c.Call("enc/v1.Decrypt", func() string { return fmt.Sprintf("in==nil:%v UnwrapKeyFn==nil:%v", in == nil, fn == nil) }, func() {
							out, err := v1.Decrypt(in, v1.DecryptOptions{UnwrapKeyFn: fn})
							if err == nil {
								io.Copy(io.Discard, out)
							}
						})
					}
				}
			}
			for _, cp := range ciphers {
				for _, w := range wraps {
					for _, kn := range []string{"", "k"} {
						for _, variant := range []string{"plain", "omit", "deckey"} {
							for _, n := range sizes {
								for _, src := range []string{"nil", "bytes.Reader", "7-byte reads", "data then error"} {
									if src == "7-byte reads" && n > 1 {
										continue
									}
									if (src == "nil" || w != "40-byte key") && n != 1 {
										continue // the body is never read in these cases
									}
									var wf v1.WrapKeyFn
									if w != "nil func" {
										w := w
										wf = func(pk []byte, a, k string, nonce []byte) ([]byte, []byte, error) {
											switch w {
											case "error":
												return nil, nil, errors.New("vault down")
											case "nil key":
												return nil, nil, nil
											case "70000-byte key":
												return make([]byte, 70000), nil, nil
											}
											return kc.Fill(40, 1), nil, nil
										}
									}
									opts := v1.EncryptOptions{WrapKeyFn: wf, Algorithm: alg, KeyName: kn, Cipher: cp.c, OmitKeyName: variant == "omit"}
									if variant == "deckey" {
										opts.DecryptionKeyName = "other"
									}
									var in io.Reader
									if src != "nil" {
										in = mkReader(src, kc.Fill(n, 1))
									}
									var err error
									c.Call("enc/v1.Encrypt", func() string {
										return fmt.Sprintf("Algorithm=%q Cipher=%s WrapKeyFn=%s KeyName=%q variant=%s plaintext=%dB source=%s", alg, cp.name, w, kn, variant, n, src)
									}, func() {
										var out io.Reader
										out, err = v1.Encrypt(in, opts)
										if err == nil {
											_, err = io.Copy(io.Discard, out)
										}
									})
									if err == nil {
										c.NonTrivial(1)
									}
								}
							}
						}
					}
				}
			}
		},
	}
}

func jsonTypesArea() *guard.Area {
	toks := []string{"", "null", "0", "1", "2", "3", "5", "6", "-1", "1.5", "1e3", `"1"`, `"AES-GCM"`, `"A256KW"`, "true", "[]", "{}", " 1", "1 ", "1\n",
		"99999999999999999999", "-99999999999999999999", "0x1", "01", "+1", "١", "\x00", "\xff", `"`, "{", "nul", strings.Repeat("9", 5000)}
	names := []string{"", "AES-GCM", "CHACHA20-POLY1305", "aes-gcm", "A256KW", "A128CBC-NOPAD", "A192CBC-NOPAD", "A256CBC-NOPAD", "RSA-OAEP-256", "AES", "RSA", "bogus", "\x00", strings.Repeat("A", 5000)}
	ids := []int{-1 << 63, -1 << 31, -3, -2, -1, 0, 1, 2, 3, 4, 5, 6, 7, 8, 255, 256, 1 << 31, 1<<63 - 1}
	return &guard.Area{
		Name: "encv1-json-types", Chunks: 1,
		Bound: fmt.Sprintf("Cipher and KeyAlgorithm: UnmarshalJSON called directly and through json.Unmarshal (bare and as a struct member) on %d tokens; Validate / ID / MarshalJSON / json.Marshal on %d names; NewCipherFromID / NewKeyAlgorithmFromID on %d integers", len(toks), len(names), len(ids)),
		Run: func(c *guard.Ctx, _ int) {
			for _, t := range toks {
				t := t
				d := func() string { return fmt.Sprintf("token=%s", clip([]byte(t))) }
				var err error
				c.Call("enc/v1.Cipher.UnmarshalJSON", d, func() { var x v1.Cipher; err = x.UnmarshalJSON([]byte(t)) })
				if err == nil {
					c.NonTrivial(1)
				}
				c.Call("enc/v1.KeyAlgorithm.UnmarshalJSON", d, func() { var x v1.KeyAlgorithm; err = x.UnmarshalJSON([]byte(t)) })
				if err == nil {
					c.NonTrivial(1)
				}
				c.Call("enc/v1.Cipher(json.Unmarshal)", d, func() { var x v1.Cipher; json.Unmarshal([]byte(t), &x) })
				c.Call("enc/v1.KeyAlgorithm(json.Unmarshal)", d, func() { var x v1.KeyAlgorithm; json.Unmarshal([]byte(t), &x) })
				c.Call("enc/v1.Manifest(json.Unmarshal)", d, func() { var x v1.Manifest; json.Unmarshal([]byte(t), &x) })
				c.Call("enc/v1.Manifest(json.Unmarshal)", func() string { return "as kw and cph member: " + d() }, func() {
					var x v1.Manifest
					json.Unmarshal([]byte(`{"kw":`+t+`,"cph":`+t+`}`), &x)
				})
			}
			for _, n := range names {
				n := n
				d := func() string { return fmt.Sprintf("name=%s", clip([]byte(n))) }
				c.Call("enc/v1.Cipher.Validate/ID/MarshalJSON", d, func() {
					x := v1.Cipher(n)
					x.Validate()
					x.ID()
					x.MarshalJSON()
					json.Marshal(x)
				})
				c.Call("enc/v1.KeyAlgorithm.Validate/ID/MarshalJSON", d, func() {
					x := v1.KeyAlgorithm(n)
					x.Validate()
					x.ID()
					x.MarshalJSON()
					json.Marshal(x)
				})
				c.Call("enc/v1.Manifest.Validate", d, func() {
					m := v1.Manifest{KeyWrappingAlgorithm: v1.KeyAlgorithm(n), Cipher: v1.Cipher(n), WFK: []byte{1}, NoncePrefix: kc.Fill(7, 1)}
					m.Validate()
					json.Marshal(&m)
				})
			}
			for _, id := range ids {
				id := id
				d := func() string { return fmt.Sprintf("id=%d", id) }
				c.Call("enc/v1.NewCipherFromID", d, func() { v1.NewCipherFromID(id) })
				c.Call("enc/v1.NewKeyAlgorithmFromID", d, func() { v1.NewKeyAlgorithmFromID(id) })
			}
		},
	}
}

func TestCheck(t *testing.T) { guard.Main(t, "C07", "encv1-header", areas, rule) }
