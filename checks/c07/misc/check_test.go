// Package misc is the C07 part for streams.UppercaseTransformer /
// RuneToUppercase and the small string helpers of utils.
package misc

import (
	"bytes"
	"errors"
	"fmt"
	"io"
	"testing"

	"github.com/dapr/kit/streams"
	kutils "github.com/dapr/kit/utils"

	"verif/checks/c07/guard"
)

const rule = "misc: UppercaseTransformer on EVERY byte string of length 0..n over 19 byte classes (ASCII lower/upper/space/NUL/DEL, UTF-8 continuation bytes, 2-/3-/4-byte lead bytes, overlong and surrogate leads, 0xff; n = 4 quick, 5 thorough) x 4 source styles (bytes.Reader, 1-byte reads, data together with io.EOF, data then a non-EOF error) x 4 consumers (1-byte reads, 3-byte reads, one zero-length read then 2-byte reads, io.ReadAll); RuneToUppercase on every rune value -2..0x110001 and the int32 extremes; utils.IsTruthy / IsYaml on every string of length <= 4 over a 14-character alphabet. non-trivial = the stream ended with io.EOF / the helper returned true."

var classes = []byte{0x00, 'a', 'Z', ' ', 0x7f, 0x80, 0x9f, 0xa9, 0xb1, 0xbf, 0xc0, 0xc3, 0xc4, 0xc5, 0xe2, 0xed, 0xf0, 0xf4, 0xff}

type oneByte struct{ b []byte }

func (r *oneByte) Read(p []byte) (int, error) {
	if len(r.b) == 0 {
		return 0, io.EOF
	}
	if len(p) == 0 {
		return 0, nil
	}
	p[0] = r.b[0]
	r.b = r.b[1:]
	return 1, nil
}

type dataWithEOF struct{ b []byte }

func (r *dataWithEOF) Read(p []byte) (int, error) {
	n := copy(p, r.b)
	r.b = r.b[n:]
	if len(r.b) == 0 {
		return n, io.EOF
	}
	return n, nil
}

type dataThenErr struct{ b []byte }

var errSrc = errors.New("source failed")

func (r *dataThenErr) Read(p []byte) (int, error) {
	if len(r.b) == 0 {
		return 0, errSrc
	}
	n := copy(p, r.b)
	r.b = r.b[n:]
	return n, nil
}

var sources = []string{"bytes.Reader", "1-byte reads", "data+EOF", "data then error"}
var consumers = []string{"1-byte buffer", "3-byte buffer", "zero-length read then 2-byte buffer", "io.ReadAll"}

func src(kind string, b []byte) io.Reader {
	b = append([]byte{}, b...)
	switch kind {
	case "1-byte reads":
		return &oneByte{b}
	case "data+EOF":
		return &dataWithEOF{b}
	case "data then error":
		return &dataThenErr{b}
	}
	return bytes.NewReader(b)
}

func consume(kind string, r io.Reader) error {
	size := 1
	switch kind {
	case "io.ReadAll":
		_, err := io.ReadAll(r)
		return err
	case "3-byte buffer":
		size = 3
	case "zero-length read then 2-byte buffer":
		if _, err := r.Read(nil); err != nil {
			return err
		}
		size = 2
	}
	buf := make([]byte, size)
	for i := 0; ; i++ {
		_, err := r.Read(buf)
		if err == io.EOF {
			return nil
		}
		if err != nil {
			return err
		}
		if i > 1000 {
			panic("consumer: more than 1000 reads for an input of <= 5 bytes (the stream does not end)")
		}
	}
}

func areas(thorough bool) []*guard.Area {
	n := 4
	if thorough {
		n = 5
	}
	nc := len(classes)
	alpha := []string{"y", "e", "s", "t", "r", "u", "o", "n", "1", "0", " ", "Y", "\t", "é"}
	return []*guard.Area{
		{
			Name: "uppercase-transformer", Chunks: nc + 1,
			Bound: fmt.Sprintf("all byte strings of length 0..%d over %d byte classes % x, x %d sources x %d consumers", n, nc, classes, len(sources), len(consumers)),
			Run: func(c *guard.Ctx, ci int) {
				run := func(in []byte) {
					for _, s := range sources {
						for _, k := range consumers {
							s, k := s, k
							var err error
							c.Call("streams.UppercaseTransformer", func() string { return fmt.Sprintf("bytes=% x source=%s consumer=%s", in, s, k) }, func() {
								err = consume(k, streams.UppercaseTransformer(src(s, in)))
							})
							if err == nil {
								c.NonTrivial(1)
							}
						}
					}
				}
				if ci == nc {
					run(nil)
					return
				}
				// all strings starting with classes[ci]
				var rec func(prefix []byte)
				rec = func(prefix []byte) {
					run(prefix)
					if len(prefix) == n {
						return
					}
					for _, b := range classes {
						rec(append(append([]byte{}, prefix...), b))
					}
				}
				rec([]byte{classes[ci]})
			},
		},
		{
			Name: "rune-to-uppercase", Chunks: 18,
			Bound: "RuneToUppercase on every rune value -2..0x110001 plus the int32 extremes",
			Run: func(c *guard.Ctx, ci int) {
				lo, hi := ci*0x10000, (ci+1)*0x10000
				if ci == 17 {
					for _, r := range []rune{-2, -1, 0x110000, 0x110001, 1<<31 - 1, -1 << 31} {
						r := r
						c.Call("streams.RuneToUppercase", func() string { return fmt.Sprintf("rune=%d", r) }, func() { streams.RuneToUppercase(r) })
					}
					return
				}
				for r := rune(lo); r < rune(hi); r++ {
					r := r
					c.Call("streams.RuneToUppercase", func() string { return fmt.Sprintf("rune=%#x", r) }, func() { streams.RuneToUppercase(r) })
					c.NonTrivial(1)
				}
			},
		},
		{
			Name: "utils-strings", Chunks: 1,
			Bound: fmt.Sprintf("IsTruthy and IsYaml on every string of length 0..4 over %q", alpha),
			Run: func(c *guard.Ctx, _ int) {
				var rec func(s string, depth int)
				rec = func(s string, depth int) {
					var ok bool
					c.Call("utils.IsTruthy", func() string { return fmt.Sprintf("%q", s) }, func() { ok = kutils.IsTruthy(s) })
					if ok {
						c.NonTrivial(1)
					}
					c.Call("utils.IsYaml", func() string { return fmt.Sprintf("%q", s) }, func() { kutils.IsYaml(s + ".yml"); kutils.IsYaml(s) })
					if depth == 4 {
						return
					}
					for _, a := range alpha {
						rec(s+a, depth+1)
					}
				}
				rec("", 0)
			},
		},
	}
}

func TestCheck(t *testing.T) { guard.Main(t, "C07", "misc", areas, rule) }
