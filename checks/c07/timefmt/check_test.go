// Package timefmt is the C07 part for kit's time package
// (ParseISO8601Duration / ParseDuration / ParseTime).
package timefmt

import (
	"fmt"
	"testing"
	"time"

	ktime "github.com/dapr/kit/time"

	"verif/checks/c07/guard"
)

const rule = "time: ParseISO8601Duration, ParseDuration, ParseTime(nil offset) and ParseTime(fixed offset) on EVERY string of length 0..n over a 15-character alphabet (n = 6 quick, 7 thorough) for the ISO-8601 alphabet {R,P,T,Y,M,W,D,H,S,/,0,1,9,-,.} and (n = 5 quick, 6 thorough) for the Go-duration/RFC 3339 alphabet {0,1,9,.,-,+,h,m,s,n,u,µ,:,T,Z}. non-trivial = the string was accepted (nil error)."

var alphaISO = []string{"R", "P", "T", "Y", "M", "W", "D", "H", "S", "/", "0", "1", "9", "-", "."}
var alphaGo = []string{"0", "1", "9", ".", "-", "+", "h", "m", "s", "n", "u", "µ", ":", "T", "Z"}

type chunkDef struct {
	length int
	prefix []int
}

func plan(n int, na int) []chunkDef {
	var out []chunkDef
	for L := 0; L <= n; L++ {
		if L <= 4 {
			out = append(out, chunkDef{L, nil})
			continue
		}
		for a := 0; a < na; a++ {
			for b := 0; b < na; b++ {
				out = append(out, chunkDef{L, []int{a, b}})
			}
		}
	}
	return out
}

var fixed = time.Date(2024, 2, 29, 23, 59, 59, 0, time.UTC)

func area(name string, alpha []string, n int) *guard.Area {
	chunks := plan(n, len(alpha))
	run := func(c *guard.Ctx, ci int) {
		cd := chunks[ci]
		idx := make([]int, cd.length)
		copy(idx, cd.prefix)
		free := cd.length - len(cd.prefix)
		buf := make([]byte, 0, 32)
		for {
			buf = buf[:0]
			for _, t := range idx {
				buf = append(buf, alpha[t]...)
			}
			s := string(buf)
			desc := func() string { return fmt.Sprintf("%q", s) }
			var err error
			c.Call("time.ParseISO8601Duration", desc, func() { _, _, _, _, _, err = ktime.ParseISO8601Duration(s) })
			if err == nil {
				c.NonTrivial(1)
			}
			c.Call("time.ParseDuration", desc, func() { _, _, _, _, _, err = ktime.ParseDuration(s) })
			if err == nil {
				c.NonTrivial(1)
			}
			c.Call("time.ParseTime(offset=nil)", desc, func() { _, err = ktime.ParseTime(s, nil) })
			if err == nil {
				c.NonTrivial(1)
			}
			c.Call("time.ParseTime(offset=fixed)", desc, func() { _, err = ktime.ParseTime(s, &fixed) })
			if err == nil {
				c.NonTrivial(1)
			}
			i := cd.length - 1
			for ; i >= cd.length-free; i-- {
				idx[i]++
				if idx[i] < len(alpha) {
					break
				}
				idx[i] = 0
			}
			if i < cd.length-free {
				break
			}
		}
	}
	return &guard.Area{Name: name, Chunks: len(chunks), Run: run,
		Bound: fmt.Sprintf("all strings of length 0..%d over %v x 4 entry points", n, alpha)}
}

func areas(thorough bool) []*guard.Area {
	n1, n2 := 6, 5
	if thorough {
		n1, n2 = 7, 6
	}
	return []*guard.Area{area("time-iso8601", alphaISO, n1), area("time-godur-rfc3339", alphaGo, n2)}
}

func TestCheck(t *testing.T) { guard.Main(t, "C07", "time", areas, rule) }
