// Package kc holds what the C07 parts share about kit's crypto package: the
// table of algorithm names (copied from crypto/consts.go), natural argument
// sizes, and the "key suite" that pushes one parsed key through every
// key-consuming entry point.
package kc

import (
	"encoding/hex"
	"fmt"
	"strings"

	"github.com/lestrrat-go/jwx/v2/jwk"

	kcrypto "github.com/dapr/kit/crypto"

	"verif/checks/c07/guard"
)

// AllAlgs lists every algorithm constant of crypto/consts.go plus names that
// are not algorithms (unknown, empty, too short for the name-slicing helpers).
var AllAlgs = []string{
	"A128CBC", "A192CBC", "A256CBC", "A128CBC-NOPAD", "A192CBC-NOPAD", "A256CBC-NOPAD",
	"A128GCM", "A192GCM", "A256GCM", "A128CBC-HS256", "A192CBC-HS384", "A256CBC-HS512",
	"A128KW", "A192KW", "A256KW", "A128GCMKW", "A192GCMKW", "A256GCMKW",
	"C20P", "XC20P", "C20PKW", "XC20PKW",
	"ECDH-ES", "ECDH-ES+A128KW", "ECDH-ES+A192KW", "ECDH-ES+A256KW",
	"RSA1_5", "RSA-OAEP", "RSA-OAEP-256", "RSA-OAEP-384", "RSA-OAEP-512",
	"ES256", "ES384", "ES512", "EdDSA", "HS256", "HS384", "HS512",
	"PS256", "PS384", "PS512", "RS256", "RS384", "RS512",
	"", "A", "bogus", "a128cbc",
}

// SymKeyLen is the key length the algorithm expects (0 if not symmetric).
func SymKeyLen(alg string) int {
	switch {
	case strings.HasSuffix(alg, "-HS256"):
		return 32
	case strings.HasSuffix(alg, "-HS384"):
		return 48
	case strings.HasSuffix(alg, "-HS512"):
		return 64
	case strings.HasPrefix(alg, "A128"):
		return 16
	case strings.HasPrefix(alg, "A192"):
		return 24
	case strings.HasPrefix(alg, "A256"):
		return 32
	case strings.Contains(alg, "C20P"):
		return 32
	}
	return 0
}

// NonceLen is the nonce/IV length the algorithm expects.
func NonceLen(alg string) int {
	switch {
	case strings.Contains(alg, "CBC"):
		return 16
	case strings.HasPrefix(alg, "XC20P"):
		return 24
	case strings.Contains(alg, "GCM"), strings.HasPrefix(alg, "C20P"):
		return 12
	}
	return 0
}

// TagLen is the authentication tag length the algorithm expects.
func TagLen(alg string) int {
	switch {
	case strings.HasSuffix(alg, "-HS256"):
		return 16
	case strings.HasSuffix(alg, "-HS384"):
		return 24
	case strings.HasSuffix(alg, "-HS512"):
		return 32
	case strings.Contains(alg, "GCM"), strings.Contains(alg, "C20P"):
		return 16
	}
	return 0
}

// DigestLen is the digest length of a signature algorithm.
func DigestLen(alg string) int {
	switch {
	case strings.HasSuffix(alg, "384"):
		return 48
	case strings.HasSuffix(alg, "512"):
		return 64
	}
	return 32
}

// Fill returns n bytes b, b+1, ...
func Fill(n int, b byte) []byte {
	out := make([]byte, n)
	for i := range out {
		out[i] = b + byte(i)
	}
	return out
}

func hx(b []byte) string {
	if len(b) > 48 {
		return fmt.Sprintf("%s..(%d bytes)", hex.EncodeToString(b[:48]), len(b))
	}
	return hex.EncodeToString(b)
}

// Suite pushes key k through SerializeKey and, for every algorithm name,
// through Encrypt, Decrypt, EncryptSymmetric, DecryptSymmetric,
// EncryptPublicKey, DecryptPrivateKey, SignPrivateKey and VerifyPublicKey with
// byte arguments of the algorithm's natural sizes. keyDesc describes the key
// (it is the input that varies).
func Suite(c *guard.Ctx, k jwk.Key, keyDesc func() string) {
	d := func(alg string) func() string {
		return func() string { return "alg=" + alg + " key=" + keyDesc() }
	}
	c.Call("crypto.SerializeKey", keyDesc, func() { kcrypto.SerializeKey(k) })
	aad := []byte("aad")
	for _, alg := range AllAlgs {
		pt := Fill(32, 1)
		nonce := Fill(NonceLen(alg), 7)
		var ct, tag []byte
		var err error
		c.Call("crypto.Encrypt", d(alg), func() { ct, tag, err = kcrypto.Encrypt(pt, alg, k, nonce, aad) })
		if err == nil {
			c.NonTrivial(1)
		} else {
			ct, tag = Fill(128, 0), Fill(TagLen(alg), 0)
		}
		c.Call("crypto.Decrypt", d(alg), func() { kcrypto.Decrypt(ct, alg, k, nonce, tag, aad) })
		if err == nil {
			// also a ciphertext that was not produced by Encrypt
			c.Call("crypto.Decrypt(zero ct)", d(alg), func() { kcrypto.Decrypt(make([]byte, len(ct)), alg, k, nonce, tag, aad) })
		}
		c.Call("crypto.EncryptSymmetric", d(alg), func() { kcrypto.EncryptSymmetric(pt, alg, k, nonce, aad) })
		c.Call("crypto.DecryptSymmetric", d(alg), func() { kcrypto.DecryptSymmetric(ct, alg, k, nonce, tag, aad) })
		c.Call("crypto.EncryptPublicKey", d(alg), func() { kcrypto.EncryptPublicKey(pt, alg, k, aad) })
		c.Call("crypto.DecryptPrivateKey", d(alg), func() { kcrypto.DecryptPrivateKey(ct, alg, k, aad) })
		dig := Fill(DigestLen(alg), 3)
		var sig []byte
		c.Call("crypto.SignPrivateKey", d(alg), func() { sig, err = kcrypto.SignPrivateKey(dig, alg, k) })
		if err == nil {
			c.NonTrivial(1)
			c.Call("crypto.VerifyPublicKey(own sig)", d(alg), func() { kcrypto.VerifyPublicKey(dig, sig, alg, k) })
		}
		c.Call("crypto.VerifyPublicKey", d(alg), func() { kcrypto.VerifyPublicKey(dig, make([]byte, 64), alg, k) })
	}
}

// Hex is exported for descriptions.
func Hex(b []byte) string { return hx(b) }
