package c15seq

import (
	"fmt"
	"time"

	"github.com/dapr/kit/ttlcache"
	clocktesting "k8s.io/utils/clock/testing"

	"verif/enumx"
)

// Many keys: Reset and Cleanup walk the whole map, so their behaviour may depend
// on how many entries there are (batching, buffer sizes, growth of the map).
// For N around every power of two up to 8192 (and 10000): N keys are Set, half
// with a short and half with a long TTL; after Reset every key misses; after a
// second fill, an advance past the short TTL and a Cleanup, exactly the
// long-lived keys are still served and none of them has disappeared.

// ManyCase is one case (also the replay record).
type ManyCase struct {
	Mode string `json:"mode"` // "many"
	N    int    `json:"n"`
	Op   string `json:"op"` // "reset" | "cleanup" | "tick"
}

func (c ManyCase) String() string { return fmt.Sprintf("%d keys, %s", c.N, c.Op) }

func evalMany(c *ManyCase) (key, msg string) {
	defer func() {
		if e := recover(); e != nil {
			key, msg = "many/panic", fmt.Sprintf("%s: panicked: %v", c, e)
		}
	}()
	clk := clocktesting.NewFakeClock(epoch)
	every := 1000 * time.Hour
	if c.Op == "tick" {
		every = 3 * time.Second
	}
	cache := ttlcache.NewCacheWithClock[int](ttlcache.CacheOptions{CleanupInterval: every}, clk)
	defer cache.Stop()
	name := func(i int) string { return fmt.Sprintf("k%05d", i) }
	fill := func() {
		for i := 0; i < c.N; i++ {
			ttl := int64(1)
			if i%2 == 1 {
				ttl = 1000
			}
			cache.Set(name(i), i, ttl)
		}
	}
	fill()
	switch c.Op {
	case "reset":
		cache.Reset()
		for i := 0; i < c.N; i++ {
			if v, ok := cache.Get(name(i)); ok {
				return "many/hit-after-reset", fmt.Sprintf("%s: Get(%s) returned %d after Reset (key %d of %d)", c, name(i), v, i, c.N)
			}
		}
		n := 0
		cache.VerifEntries(func(string, int, time.Time) { n++ })
		if n != 0 {
			return "many/hit-after-reset", fmt.Sprintf("%s: %d entries are still in the map after Reset", c, n)
		}
	case "cleanup", "tick":
		if c.Op == "tick" {
			for i := 0; i < 2000 && !clk.HasWaiters(); i++ {
				time.Sleep(50 * time.Microsecond)
			}
		}
		clk.Step(3 * time.Second)
		if c.Op == "cleanup" {
			cache.Cleanup()
		} else {
			// wait until the periodic sweep has removed the first short-lived entry
			for i := 0; i < 8000; i++ {
				gone := true
				cache.VerifEntries(func(k string, _ int, _ time.Time) {
					if k == name(0) {
						gone = false
					}
				})
				if gone {
					break
				}
				time.Sleep(50 * time.Microsecond)
			}
			time.Sleep(2 * time.Millisecond)
		}
		for i := 0; i < c.N; i++ {
			v, ok := cache.Get(name(i))
			switch {
			case i%2 == 1 && (!ok || v != i):
				return "many/live-entry-gone-after-cleanup", fmt.Sprintf("%s: Get(%s) = (%d,%v) although its 1000 s TTL has 997 s left and nobody touched the key", c, name(i), v, ok)
			case i%2 == 0 && ok:
				return "many/hit-after-expiry", fmt.Sprintf("%s: Get(%s) returned a value 3 s after a Set with a 1 s TTL", c, name(i))
			}
		}
	}
	return "", ""
}

func manyCases(thorough bool) []*ManyCase {
	ns := []int{1, 2, 3, 15, 16, 17, 63, 64, 65, 255, 256, 257, 1023, 1024, 1025, 1026, 2047, 2048, 2049, 2050, 3073, 4096, 4097}
	if thorough {
		ns = append(ns, 8191, 8192, 8193, 10000, 16385, 65537)
	}
	var out []*ManyCase
	for _, n := range ns {
		for _, op := range []string{"reset", "cleanup", "tick"} {
			out = append(out, &ManyCase{"many", n, op})
		}
	}
	return out
}

func runMany(r *enumx.Run) {
	cases := manyCases(r.Thorough())
	done := r.Parallel(len(cases), func(i int) {
		if key, msg := evalMany(cases[i]); key != "" {
			r.Violation(key, msg, cases[i])
		}
		r.Count(int64(3*cases[i].N), int64(3*cases[i].N))
	})
	if done == len(cases) {
		r.Space(fmt.Sprintf("many keys: %d cases = N keys (around every power of two up to 4096%s) x {Reset, Cleanup, periodic tick}: every key read back", len(cases), map[bool]string{true: ", 8192, 10000, 16385, 65537", false: ""}[r.Thorough()]))
	} else {
		r.Incomplete(fmt.Sprintf("many keys: %d of %d cases", done, len(cases)))
	}
}
