package c15seq

import (
	"fmt"
	"math"
	"time"

	"github.com/dapr/kit/ttlcache"
	clocktesting "k8s.io/utils/clock/testing"

	"verif/enumx"
)

// The boundary family: one Set with a TTL from a boundary set (around MaxTTL,
// around 2^31 and 2^32 seconds, around the point at which the expiry instant
// leaves the range UnixNano can express, around the largest number of seconds a
// time.Duration can hold, and math.MaxInt64 "for ever"), under every MaxTTL of
// a boundary set, then the clock advanced by a boundary duration (relative to
// the effective lifetime L = min(ttl, MaxTTL)), then the entry read directly,
// after a manual Cleanup, or after a periodic cleanup tick. A control entry
// with a 3 s TTL is set beside it. The reference is integer arithmetic: the
// entry is live iff floor(elapsed / 1 s) < L.

const maxDurSeconds = int64(math.MaxInt64 / int64(time.Second)) // 9_223_372_036

var bTTLs = []int64{1, 2, 3, 14, 15, 16, 3600, 1<<31 - 1, 1 << 31, 1<<32 - 1, 1 << 32, 1<<32 + 1,
	7_000_000_000, 7_450_000_000, 7_500_000_000, 8_000_000_000, 9_000_000_000,
	maxDurSeconds - 1, maxDurSeconds, maxDurSeconds + 1, maxDurSeconds + 2, 2 * maxDurSeconds, 1 << 62, math.MaxInt64 - 1, math.MaxInt64}

var bMaxTTLs = []int64{0, 2, 15, 1 << 32, 8_000_000_000, maxDurSeconds, maxDurSeconds + 1, math.MaxInt64}

// bCase is one boundary case (also the replay record).
type bCase struct {
	Mode            string `json:"mode"` // "boundary"
	MaxTTL          int64  `json:"max_ttl"`
	TTL             int64  `json:"ttl"`
	Advance         int64  `json:"advance_ns"`                         // total clock advance after the Set
	Read            string `json:"read"`                               // "get" | "cleanup+get" | "tick+get"
	StartNs         int64  `json:"start_offset_ns,omitempty"`          // the Set happens this long after a whole second
	DefaultInterval bool   `json:"default_cleanup_interval,omitempty"` // CleanupInterval left at 0 (the default path of NewCache)
}

func (c *bCase) String() string {
	extra := ""
	if c.StartNs != 0 {
		extra += fmt.Sprintf(" clock starts %v past a whole second", time.Duration(c.StartNs))
	}
	if c.DefaultInterval {
		extra += " CleanupInterval left at its default"
	}
	return fmt.Sprintf("MaxTTL=%d%s Set(big,ttl=%ds) Set(ctl,ttl=3s) Advance(%v) %s", c.MaxTTL, extra, c.TTL, time.Duration(c.Advance), c.Read)
}

func effLife(ttl, maxTTL int64) int64 {
	if maxTTL > 0 && ttl > maxTTL {
		return maxTTL
	}
	return ttl
}

// advances returns the boundary advances (ns) for an effective lifetime of l seconds.
func advances(l int64) []int64 {
	set := map[int64]bool{0: true, 1: true, int64(time.Second): true, int64(2500 * time.Millisecond): true, int64(3 * time.Second): true,
		int64(24 * time.Hour): true, int64(100 * 365 * 24 * time.Hour): true, math.MaxInt64 - 1: true, math.MaxInt64: true}
	if l <= maxDurSeconds {
		ns := l * int64(time.Second)
		for _, d := range []int64{-int64(time.Second), -int64(500 * time.Millisecond), -1, 0, 1, int64(time.Second)} {
			if v := ns + d; v >= 0 && (d <= 0 || v > ns) { // no overflow
				set[v] = true
			}
		}
	}
	out := make([]int64, 0, len(set))
	for v := range set {
		out = append(out, v)
	}
	return out
}

const cleanupEvery = 40 * 365 * 24 * time.Hour // the periodic cleaner's interval in "tick+get" cases

func evalBoundary(c *bCase) (key, msg string) {
	defer func() {
		if e := recover(); e != nil {
			key, msg = "boundary/panic", fmt.Sprintf("%s: panicked: %v", c, e)
		}
	}()
	clk := clocktesting.NewFakeClock(epoch.Add(time.Duration(c.StartNs)))
	every := time.Duration(math.MaxInt64)
	if c.Read == "tick+get" {
		every = cleanupEvery
	}
	if c.DefaultInterval {
		every = 0 // NewCache's own default (150 s)
	}
	cache := ttlcache.NewCacheWithClock[int](ttlcache.CacheOptions{CleanupInterval: every, MaxTTL: c.MaxTTL}, clk)
	defer cache.Stop()
	cache.Set("big", 7, c.TTL)
	cache.Set("ctl", 8, 3)
	if c.Read == "tick+get" {
		// let the cleaner create its ticker before time moves
		for i := 0; i < 2000 && !clk.HasWaiters(); i++ {
			time.Sleep(50 * time.Microsecond)
		}
		if !clk.HasWaiters() {
			return "machinery", "the background cleaner did not arm its ticker within 100 ms"
		}
	}
	clk.Step(time.Duration(c.Advance))
	switch c.Read {
	case "cleanup+get":
		cache.Cleanup()
	case "tick+get":
		if time.Duration(c.Advance) >= cleanupEvery {
			// a tick is due: wait until the cleaner has consumed it (it re-arms nothing; the
			// fake ticker delivers on Step) — poll the physical content of the control entry
			for i := 0; i < 4000; i++ {
				n := 0
				cache.VerifEntries(func(k string, _ int, _ time.Time) {
					if k == "ctl" {
						n++
					}
				})
				if n == 0 {
					break
				}
				time.Sleep(50 * time.Microsecond)
			}
		}
	}
	l := effLife(c.TTL, c.MaxTTL)
	live := c.Advance/int64(time.Second) < l
	ctlLive := c.Advance/int64(time.Second) < effLife(3, c.MaxTTL)
	v, ok := cache.Get("big")
	switch {
	case live && !ok && l > maxDurSeconds && c.Advance/int64(time.Second) >= maxDurSeconds:
		// its own key: a lifetime beyond the range of time.Duration cannot be kept
		// with time.Duration arithmetic; the entry lasts 9223372036 s (292 years)
		return "boundary/lifetime-beyond-the-range-of-time.Duration-ends-after-292-years", fmt.Sprintf("%s: the entry is gone after %v although its lifetime is %d s", c, time.Duration(c.Advance), l)
	case live && !ok && c.Read == "get":
		return "boundary/miss-of-live-entry", fmt.Sprintf("%s: Get reported a miss although only %v of the entry's %d s have elapsed", c, time.Duration(c.Advance), l)
	case live && !ok:
		return "boundary/cleanup-removed-live-entry", fmt.Sprintf("%s: the entry is gone although only %v of its %d s have elapsed (nobody touched the key)", c, time.Duration(c.Advance), l)
	case live && v != 7:
		return "boundary/wrong-value", fmt.Sprintf("%s: Get returned %d, 7 was stored", c, v)
	case !live && ok:
		what := "boundary/hit-after-expiry"
		if l < c.TTL {
			what = "boundary/hit-beyond-MaxTTL"
		}
		return what, fmt.Sprintf("%s: Get returned the value although %v have elapsed and the lifetime is %d s", c, time.Duration(c.Advance), l)
	}
	if v, ok := cache.Get("ctl"); ok != ctlLive || (ok && v != 8) {
		return "boundary/control-entry", fmt.Sprintf("%s: the control entry (ttl 3 s) reads (%d,%v) after %v", c, v, ok, time.Duration(c.Advance))
	}
	return "", ""
}

func boundaryCases() []*bCase {
	var out []*bCase
	for _, m := range bMaxTTLs {
		for _, t := range bTTLs {
			for _, a := range advances(effLife(t, m)) {
				for _, rd := range []string{"get", "cleanup+get", "tick+get"} {
					out = append(out, &bCase{Mode: "boundary", MaxTTL: m, TTL: t, Advance: a, Read: rd})
					if t <= 1<<32 && rd != "tick+get" {
						// a clock that is not on a whole second, and the constructor's default interval
						out = append(out, &bCase{Mode: "boundary", MaxTTL: m, TTL: t, Advance: a, Read: rd, StartNs: int64(600 * time.Millisecond)})
						out = append(out, &bCase{Mode: "boundary", MaxTTL: m, TTL: t, Advance: a, Read: rd, DefaultInterval: true})
					}
				}
			}
		}
	}
	return out
}

func runBoundary(r *enumx.Run) {
	cases := boundaryCases()
	done := r.Parallel(len(cases), func(i int) {
		if key, msg := evalBoundary(cases[i]); key != "" {
			r.Violation(key, msg, cases[i])
		}
		r.Count(1, 1)
	})
	r.Set("boundary_cases", len(cases))
	if done == len(cases) {
		r.Space(fmt.Sprintf("boundary TTLs: %d cases = %d MaxTTL values x %d TTL values (1 s .. math.MaxInt64 s, around 2^31, 2^32, the UnixNano range, the time.Duration range) x boundary advances (0, 1 ns, lifetime -1 s/-1 ns/+0/+1 ns/+1 s, 1 day, 100 years, the largest Duration) x {Get, Cleanup+Get, periodic tick+Get}, a 3 s control entry beside it", len(cases), len(bMaxTTLs), len(bTTLs)))
	} else {
		r.Incomplete(fmt.Sprintf("boundary TTLs: %d of %d cases", done, len(cases)))
	}
}
