// Package c15seq is the sequential part of C15: ttlcache.Get never returns an
// expired, deleted or superseded value; manual Cleanup removes only expired
// entries; Stop returns.
//
// Explicit-state breadth-first search on the REAL cache (real haxmap, the
// k8s FakeClock injected through an in-package constructor that the build
// overlay adds): a state is the shortest operation history reaching it; a
// successor is produced by replaying that history on a FRESH cache plus one
// operation; after the operation every key is read with Get and compared with
// a boring reference map; states are merged by a canonical key made of the
// reference state (per key: present?, age rank of the value, remaining life)
// and the physical content of the real map (per key: absent / value matches /
// stale, exp-now), read through an in-package accessor. Every cache is
// stopped afterwards and Stop must return.
package c15seq

import (
	"encoding/json"
	"fmt"
	"runtime"
	"strings"
	"sync"
	"sync/atomic"
	"testing"
	"time"

	"github.com/dapr/kit/ttlcache"
	clocktesting "k8s.io/utils/clock/testing"

	"verif/enumx"
)

// Time is counted in half seconds.
const half = 500 * time.Millisecond

var epoch = time.Date(2024, 1, 1, 0, 0, 0, 0, time.UTC)

var keyNames = [2]string{"a", "b"}

// cop is one operation: 'S' Set(key, fresh value, ttl N seconds), 'G' Get(key),
// 'D' Delete(key), 'C' Cleanup, 'R' Reset, 'A' advance the clock by N half seconds.
type cop struct {
	K   byte `json:"k"`
	Key int  `json:"key"`
	N   int  `json:"n"`
}

func (o cop) String() string {
	switch o.K {
	case 'S':
		return fmt.Sprintf("Set(%s,ttl=%ds)", keyNames[o.Key], o.N)
	case 'G':
		return fmt.Sprintf("Get(%s)", keyNames[o.Key])
	case 'D':
		return fmt.Sprintf("Delete(%s)", keyNames[o.Key])
	case 'C':
		return "Cleanup"
	case 'R':
		return "Reset"
	}
	return fmt.Sprintf("Advance(%.1fs)", float64(o.N)/2)
}

func histString(h []cop) string {
	s := make([]string, len(h))
	for i, o := range h {
		s[i] = o.String()
	}
	return strings.Join(s, "; ")
}

var alphabet = func() []cop {
	var a []cop
	for k := 0; k < 2; k++ {
		for ttl := 1; ttl <= 3; ttl++ {
			a = append(a, cop{K: 'S', Key: k, N: ttl})
		}
	}
	for k := 0; k < 2; k++ {
		a = append(a, cop{K: 'G', Key: k})
	}
	for k := 0; k < 2; k++ {
		a = append(a, cop{K: 'D', Key: k})
	}
	a = append(a, cop{K: 'C'}, cop{K: 'R'})
	for _, n := range []int{1, 2, 5} { // 0.5 s, 1 s, 2.5 s
		a = append(a, cop{K: 'A', N: n})
	}
	return a
}()

// ---- the reference: the property's statement, nothing else -----------------

type rentry struct {
	present bool // Set and not deleted / reset since
	val     int  // the value most recently Set
	setAt   int  // clock (half seconds) at that Set
	reqTTL  int  // requested TTL (half seconds)
	ttl     int  // TTL capped by MaxTTL when configured (half seconds)
}

type ref struct {
	now    int
	maxTTL int // seconds, 0 = none
	e      [2]rentry
}

func (m *ref) get(k int) (int, bool) {
	e := m.e[k]
	if e.present && m.now-e.setAt < e.ttl { // STRICTLY less than its TTL has elapsed
		return e.val, true
	}
	return 0, false
}

func (m *ref) apply(o cop, val int) {
	switch o.K {
	case 'S':
		ttl := o.N
		if m.maxTTL > 0 && ttl > m.maxTTL {
			ttl = m.maxTTL
		}
		m.e[o.Key] = rentry{true, val, m.now, 2 * o.N, 2 * ttl}
	case 'D':
		m.e[o.Key].present = false
	case 'R':
		m.e[0].present, m.e[1].present = false, false
	case 'A':
		m.now += o.N
	case 'G', 'C':
		// Get has no effect; Cleanup may only drop entries that no Get would return
	}
}

// ---- the world: real cache + reference -------------------------------------

type world struct {
	c    *ttlcache.Cache[int]
	clk  *clocktesting.FakeClock
	m    ref
	vals int
}

func newWorld(maxTTL int) *world {
	clk := clocktesting.NewFakeClock(epoch)
	c := ttlcache.NewCacheWithClock[int](ttlcache.CacheOptions{
		CleanupInterval: time.Hour, // far beyond any total advance: the periodic cleaner never fires here
		MaxTTL:          int64(maxTTL),
	}, clk)
	return &world{c: c, clk: clk, m: ref{maxTTL: maxTTL}}
}

// classify names the disagreement of one Get with the reference.
func (w *world) classify(k int, gv int, gok bool, last cop) (what, msg string) {
	wv, wok := w.m.get(k)
	if gok == wok && (!gok || gv == wv) {
		return "", ""
	}
	e := w.m.e[k]
	el := float64(w.m.now-e.setAt) / 2
	switch {
	case gok && !wok && !e.present && e.ttl == 0:
		return "hit-never-set", fmt.Sprintf("Get(%s) returned value #%d but the key was never Set", keyNames[k], gv)
	case gok && !wok && !e.present:
		return "hit-after-delete-or-reset", fmt.Sprintf("Get(%s) returned value #%d although the key was deleted/reset after its last Set", keyNames[k], gv)
	case gok && !wok && w.m.now-e.setAt == e.ttl:
		return "hit-exactly-at-expiry", fmt.Sprintf("Get(%s) returned value #%d exactly %.1fs after its Set with a lifetime of %ds (not strictly less than the TTL)", keyNames[k], gv, el, e.ttl/2)
	case gok && !wok && e.reqTTL > e.ttl && w.m.now-e.setAt < e.reqTTL:
		return "hit-beyond-MaxTTL", fmt.Sprintf("Get(%s) returned value #%d %.1fs after its Set with ttl=%ds under MaxTTL=%ds (lifetime is capped at %ds)", keyNames[k], gv, el, e.reqTTL/2, w.m.maxTTL, e.ttl/2)
	case gok && !wok:
		return "hit-after-expiry", fmt.Sprintf("Get(%s) returned value #%d %.1fs after its Set with a lifetime of %ds", keyNames[k], gv, el, e.ttl/2)
	case gok && wok:
		return "hit-superseded-value", fmt.Sprintf("Get(%s) returned value #%d, the most recent Set stored #%d", keyNames[k], gv, wv)
	}
	return "miss-of-live-entry-after-" + opName(last), fmt.Sprintf("Get(%s) reported a miss, but value #%d was Set %.1fs ago with a lifetime of %ds and not deleted or reset since", keyNames[k], wv, el, e.ttl/2)
}

func opName(o cop) string {
	switch o.K {
	case 'S':
		return "Set"
	case 'G':
		return "Get"
	case 'D':
		return "Delete"
	case 'C':
		return "Cleanup"
	case 'R':
		return "Reset"
	case 'A':
		return "Advance"
	}
	return "start"
}

// step applies one operation to the real cache and the reference; for Get the
// returned value is compared.
func (w *world) step(o cop) (what, msg string) {
	defer func() {
		if e := recover(); e != nil {
			what, msg = "panic-in-"+opName(o), fmt.Sprintf("%s panicked: %v", o, e)
		}
	}()
	switch o.K {
	case 'S':
		w.vals++
		w.c.Set(keyNames[o.Key], w.vals, int64(o.N))
		w.m.apply(o, w.vals)
	case 'G':
		v, ok := w.c.Get(keyNames[o.Key])
		return w.classify(o.Key, v, ok, o)
	case 'D':
		w.c.Delete(keyNames[o.Key])
		w.m.apply(o, 0)
	case 'C':
		w.c.Cleanup()
	case 'R':
		w.c.Reset()
		w.m.apply(o, 0)
	case 'A':
		w.clk.Step(time.Duration(o.N) * half)
		w.m.apply(o, 0)
	}
	return "", ""
}

// observe reads every key with Get and compares with the reference.
func (w *world) observe(last cop) (what, msg string) {
	defer func() {
		if e := recover(); e != nil {
			what, msg = "panic-in-Get", fmt.Sprintf("Get panicked: %v", e)
		}
	}()
	for k := range keyNames {
		v, ok := w.c.Get(keyNames[k])
		if what, msg = w.classify(k, v, ok, last); what != "" {
			return what, msg
		}
	}
	return "", ""
}

// key is the canonical state.
func (w *world) key() string {
	type phys struct {
		present bool
		val     int
		rem     time.Duration
	}
	var ph [2]phys
	extra := ""
	now := w.clk.Now()
	w.c.VerifEntries(func(k string, v int, exp time.Time) {
		switch k {
		case "a":
			ph[0] = phys{true, v, exp.Sub(now)}
		case "b":
			ph[1] = phys{true, v, exp.Sub(now)}
		default:
			extra += " EXTRA:" + k
		}
	})
	var sb strings.Builder
	fmt.Fprintf(&sb, "M%d", w.m.maxTTL)
	for k := 0; k < 2; k++ {
		e := w.m.e[k]
		sb.WriteString("|")
		if !e.present {
			sb.WriteString("-")
		} else {
			rank := 0
			if o := w.m.e[1-k]; o.present && o.val < e.val {
				rank = 1
			}
			fmt.Fprintf(&sb, "r%d,%d", rank, e.ttl-(w.m.now-e.setAt))
		}
		sb.WriteString("/")
		p := ph[k]
		switch {
		case !p.present:
			sb.WriteString("-")
		case p.rem%half != 0:
			fmt.Fprintf(&sb, "?%v", p.rem)
		default:
			tag := "="
			if !e.present || p.val != e.val {
				tag = fmt.Sprintf("x%d", p.val)
			}
			fmt.Fprintf(&sb, "%s%d", tag, int(p.rem/half))
		}
	}
	return sb.String() + extra
}

func replayHist(maxTTL int, h []cop) *world {
	w := newWorld(maxTTL)
	for _, o := range h {
		w.step(o)
	}
	return w
}

type caseT struct {
	MaxTTL int    `json:"max_ttl"`
	Mode   string `json:"mode"` // "bfs": replay silently, check the last op; "tree": observe after every op; "stop": only Stop
	Hist   []cop  `json:"history"`
}

type violation struct {
	key, msg string
	c        caseT
}

func mkViol(maxTTL int, mode string, h []cop, what, msg string) *violation {
	return &violation{what, fmt.Sprintf("MaxTTL=%d after [%s]: %s", maxTTL, histString(h), msg), caseT{maxTTL, mode, append([]cop{}, h...)}}
}

// ---- worker pool with a Stop watchdog --------------------------------------

const stopGuard = 10 * time.Second

type slot struct {
	since atomic.Int64
	cur   atomic.Pointer[caseT]
}

// stop calls Stop on the cache; the watchdog sees how long it has been in there.
func (s *slot) stop(w *world, maxTTL int, h []cop) {
	s.cur.Store(&caseT{maxTTL, "stop", h})
	s.since.Store(time.Now().UnixNano())
	w.c.Stop()
	s.since.Store(0)
}

type pool struct {
	r *enumx.Run
}

// run executes fn(i, slot) for i in [0,n) on all cores. It returns the number
// of indices completed and, if a worker sat in Stop for longer than the guard,
// the case it was running (the remaining workers are drained first; the stuck
// one is abandoned).
func (p *pool) run(n int, fn func(i int, s *slot)) (int, *caseT) {
	w := runtime.NumCPU()
	if w > n {
		w = n
	}
	slots := make([]*slot, w)
	var next, done atomic.Int64
	var running atomic.Int32
	var abort atomic.Bool
	var wg sync.WaitGroup
	for k := 0; k < w; k++ {
		slots[k] = &slot{}
		wg.Add(1)
		running.Add(1)
		go func(s *slot) {
			defer wg.Done()
			defer running.Add(-1)
			for {
				i := int(next.Add(1) - 1)
				if i >= n || abort.Load() || p.r.Expired() {
					return
				}
				fn(i, s)
				done.Add(1)
			}
		}(slots[k])
	}
	fin := make(chan struct{})
	go func() { wg.Wait(); close(fin) }()
	tick := time.NewTicker(200 * time.Millisecond)
	defer tick.Stop()
	for {
		select {
		case <-fin:
			return int(done.Load()), nil
		case <-tick.C:
			var hung *caseT
			stuck := int32(0)
			for _, s := range slots {
				if t := s.since.Load(); t != 0 && time.Since(time.Unix(0, t)) > stopGuard {
					stuck++
					if hung == nil {
						hung = s.cur.Load()
					}
				}
			}
			if hung == nil {
				continue
			}
			abort.Store(true)
			for i := 0; i < 150 && running.Load() > stuck; i++ {
				time.Sleep(100 * time.Millisecond)
			}
			return int(done.Load()), hung
		}
	}
}

// stopReturns runs the history on a fresh cache and reports whether Stop
// returns within the guard.
func stopReturns(c *caseT) bool {
	return stopWithin(replayHist(c.MaxTTL, c.Hist))
}

func stopWithin(w *world) bool {
	ch := make(chan struct{})
	go func() { w.c.Stop(); close(ch) }()
	select {
	case <-ch:
		return true
	case <-time.After(stopGuard):
		return false
	}
}

// handleHang confirms a suspected Stop hang three times.
func handleHang(r *enumx.Run, c *caseT) {
	hangs := 0
	for i := 0; i < 3; i++ {
		if !stopReturns(c) {
			hangs++
		}
	}
	if hangs == 3 {
		r.Violation("Stop-hangs", fmt.Sprintf("MaxTTL=%d after [%s]: Stop did not return within %v (confirmed on 3 fresh re-runs); the background cleaner did not exit", c.MaxTTL, histString(c.Hist), stopGuard), c)
		r.Incomplete("aborted: Stop does not return, the search cannot continue")
		return
	}
	r.Incomplete(fmt.Sprintf("machinery: one Stop call exceeded %v but only %d of 3 re-runs did (overloaded machine?); search aborted", stopGuard, hangs))
}

// ---- search ----------------------------------------------------------------

type state struct {
	maxTTL int
	hist   []cop
	key    string
}

type succ struct {
	key string
	o   cop
}

type expansion struct {
	succs     []succ
	viols     []*violation
	trans, nt int64
}

func isTrivial(w *world) bool { return !w.m.e[0].present && !w.m.e[1].present }

func run(r *enumx.Run, replay *enumx.ReplayCase) {
	if replay != nil {
		var bc bCase
		if err := json.Unmarshal(replay.Case, &bc); err == nil && bc.Mode == "boundary" {
			if key, msg := evalBoundary(&bc); key != "" {
				r.Violation(key, msg, &bc)
			}
			return
		}
		var mcase ManyCase
		if err := json.Unmarshal(replay.Case, &mcase); err == nil && mcase.Mode == "many" {
			if key, msg := evalMany(&mcase); key != "" {
				r.Violation(key, msg, &mcase)
			}
			return
		}
		var c caseT
		if err := json.Unmarshal(replay.Case, &c); err != nil {
			panic(err)
		}
		if v := runCase(&c); v != nil {
			r.Violation(v.key, v.msg, v.c)
		}
		return
	}
	runBoundary(r)
	runMany(r)
	depth, treeDepth := 8, 5
	if r.Thorough() {
		depth, treeDepth = 16, 6
	}
	r.Rule(fmt.Sprintf("explicit-state BFS over operation histories of the real ttlcache.Cache[int] (real haxmap, k8s FakeClock, CleanupInterval 1h so the periodic cleaner never fires) for MaxTTL in {0,2}: alphabet of %d operations Set(a|b, fresh value, ttl 1|2|3 s), Get(a|b), Delete(a|b), Cleanup, Reset, Advance(0.5|1|2.5 s); all histories of length <= %d modulo the canonical key (reference: per key present?, age rank of the value, remaining life; real object: per key physically absent / value as expected / stale, exp-now); successors by replaying the shortest history on a fresh cache plus one operation, then Get of every key compared with the reference, then Stop must return. Cross-check: the UNMERGED tree of all %d^%d histories per MaxTTL on one cache each, every key observed after every operation; the set of canonical states it reaches (with their depths) must equal the BFS set up to that depth. Before that, the boundary-TTL family (boundary_test.go): one Set with a TTL from a 25-value boundary set (1 s .. math.MaxInt64 s) under 8 MaxTTL values, a boundary clock advance, then Get / Cleanup+Get / periodic tick+Get, judged by integer arithmetic (live iff floor(elapsed/1s) < min(ttl, MaxTTL)). Then the many-keys family (many_test.go): N keys around every power of two, Reset / Cleanup / a periodic tick, every key read back. evaluations = operations executed on a real cache and compared; distinct non-trivial = executed in a state in which the reference holds at least one entry, or creating one, counted once per distinct (canonical state, operation) pair in the BFS and once per distinct history prefix in the tree.", len(alphabet), depth, len(alphabet), treeDepth))
	p := &pool{r}
	seen := map[string]int{}
	var frontier []state
	for _, m := range []int{0, 2} {
		w := newWorld(m)
		k := w.key()
		if !stopWithin(w) {
			handleHang(r, &caseT{m, "stop", nil})
			return
		}
		seen[k] = 0
		frontier = append(frontier, state{m, nil, k})
	}
	var states, trans int64 = int64(len(frontier)), 0
	perLevel := []int{len(frontier)}
	completedDepth := 0
	cut := false
	for d := 0; d < depth && len(frontier) > 0; d++ {
		res := make([]*expansion, len(frontier))
		done, hung := p.run(len(frontier), func(i int, s *slot) {
			st := frontier[i]
			e := &expansion{}
			local := map[string]bool{}
			for _, o := range alphabet {
				w := replayHist(st.maxTTL, st.hist)
				triv := isTrivial(w) && o.K != 'S'
				full := append(append(make([]cop, 0, len(st.hist)+1), st.hist...), o)
				what, msg := w.step(o)
				if what == "" {
					what, msg = w.observe(o)
				}
				e.trans++
				if !triv {
					e.nt++
				}
				var k string
				if what == "" {
					k = w.key()
				}
				s.stop(w, st.maxTTL, full)
				if what != "" {
					e.viols = append(e.viols, mkViol(st.maxTTL, "bfs", full, what, msg))
					continue
				}
				if k == st.key || local[k] {
					continue
				}
				local[k] = true
				e.succs = append(e.succs, succ{k, o})
			}
			res[i] = e
		})
		if hung != nil {
			handleHang(r, hung)
			r.Set("states", states)
			r.Set("transitions", trans)
			return
		}
		var next []state
		for i, e := range res {
			if e == nil {
				continue
			}
			trans += e.trans
			r.Count(e.trans, e.nt)
			for _, v := range e.viols {
				r.Violation(v.key, v.msg, v.c)
			}
			for _, s := range e.succs {
				if _, ok := seen[s.key]; ok {
					continue
				}
				seen[s.key] = d + 1
				h := append(append(make([]cop, 0, d+1), frontier[i].hist...), s.o)
				next = append(next, state{frontier[i].maxTTL, h, s.key})
				if len(next)%1500 == 1 {
					r.Sample(map[string]any{"max_ttl": frontier[i].maxTTL, "history": histString(h), "canonical_state": s.key})
				}
			}
		}
		states += int64(len(next))
		perLevel = append(perLevel, len(next))
		if done < len(frontier) {
			r.Incomplete(fmt.Sprintf("BFS: budget expired while expanding depth %d (%d of %d states expanded)", d, done, len(frontier)))
			cut = true
			break
		}
		completedDepth = d + 1
		r.Space(fmt.Sprintf("every one of the %d operations applied in each of the %d canonical states first reached at depth %d (histories of length %d)", len(alphabet), len(frontier), d, d+1))
		frontier = next
	}
	r.Set("states", states)
	r.Set("bfs_transitions", trans)
	r.Set("new_canonical_states_per_depth", perLevel)
	r.Set("max_history_length", completedDepth)

	// ---- cross-check: the unmerged tree --------------------------------------
	if treeDepth > completedDepth {
		treeDepth = completedDepth
	}
	A := len(alphabet)
	total := 1
	for i := 0; i < treeDepth; i++ {
		total *= A
	}
	pow := make([]int, treeDepth+1)
	pow[0] = 1
	for i := 1; i <= treeDepth; i++ {
		pow[i] = pow[i-1] * A
	}
	chunk := total / (A * A)
	if treeDepth < 2 {
		chunk = total
	}
	nChunks := 2 * total / chunk
	treeSeen := map[string]int{}
	var tmu sync.Mutex
	var treeViols []*violation
	var treeOps, treeNT, treeHist atomic.Int64
	done, hung := p.run(nChunks, func(ci int, s *slot) {
		maxTTL := []int{0, 2}[ci%2]
		lo := (ci / 2) * chunk
		local := map[string]int{}
		var viols []*violation
		h := make([]cop, treeDepth)
		for idx := lo; idx < lo+chunk; idx++ {
			x := idx
			for j := treeDepth - 1; j >= 0; j-- {
				h[j] = alphabet[x%A]
				x /= A
			}
			w := newWorld(maxTTL)
			for j, o := range h {
				triv := isTrivial(w) && o.K != 'S'
				what, msg := w.step(o)
				if what == "" {
					what, msg = w.observe(o)
				}
				treeOps.Add(1)
				if !triv && idx%pow[treeDepth-1-j] == 0 { // first execution of this prefix
					treeNT.Add(1)
				}
				if what != "" {
					if len(viols) < 50 {
						viols = append(viols, mkViol(maxTTL, "tree", h[:j+1], what, msg))
					}
					break
				}
				k := w.key()
				if dd, ok := local[k]; !ok || j+1 < dd {
					local[k] = j + 1
				}
			}
			s.stop(w, maxTTL, append([]cop{}, h...))
			treeHist.Add(1)
		}
		tmu.Lock()
		for k, dd := range local {
			if d0, ok := treeSeen[k]; !ok || dd < d0 {
				treeSeen[k] = dd
			}
		}
		treeViols = append(treeViols, viols...)
		tmu.Unlock()
	})
	if hung != nil {
		handleHang(r, hung)
		return
	}
	r.Count(treeOps.Load(), treeNT.Load())
	for _, v := range treeViols {
		r.Violation(v.key, v.msg, v.c)
	}
	r.Set("tree_histories", treeHist.Load())
	r.Set("tree_transitions", treeOps.Load())
	r.Set("tree_depth", treeDepth)
	r.Set("transitions", trans+treeOps.Load())
	if done < nChunks {
		r.Incomplete(fmt.Sprintf("unmerged tree: budget expired after %d of %d chunks", done, nChunks))
		return
	}
	if len(treeViols) == 0 && !cut {
		// the tree's states (initial states excluded: depth 0) must be exactly the BFS states of depth <= treeDepth
		mism := 0
		demo := ""
		for k, dd := range treeSeen {
			if bd, ok := seen[k]; !ok || (bd != dd && bd != 0) {
				mism++
				demo = fmt.Sprintf("%s tree depth %d, bfs depth %d (present %v)", k, dd, bd, ok)
			}
		}
		inBFS := 0
		for k, bd := range seen {
			if bd >= 1 && bd <= treeDepth {
				inBFS++
				if _, ok := treeSeen[k]; !ok {
					mism++
					demo = fmt.Sprintf("%s at bfs depth %d is not reached by the tree", k, bd)
				}
			}
		}
		r.Set("tree_distinct_states", len(treeSeen))
		r.Set("tree_vs_bfs_state_set_mismatches", mism)
		if mism > 0 {
			r.Incomplete("machinery: the unmerged tree and the BFS disagree on the reachable canonical states: " + demo)
		} else {
			r.Space(fmt.Sprintf("unmerged tree: all %d^%d histories for MaxTTL 0 and 2 (%d), every key observed after every operation; its %d canonical states and their depths equal the BFS set", A, treeDepth, treeHist.Load(), len(treeSeen)))
		}
	}
}

// runCase re-runs one recorded case.
func runCase(c *caseT) *violation {
	switch c.Mode {
	case "stop":
		for i := 0; i < 3; i++ {
			if stopReturns(c) {
				return nil
			}
		}
		return &violation{"Stop-hangs", fmt.Sprintf("MaxTTL=%d after [%s]: Stop did not return within %v on 3 re-runs", c.MaxTTL, histString(c.Hist), stopGuard), *c}
	case "tree":
		w := newWorld(c.MaxTTL)
		defer w.c.Stop()
		for j, o := range c.Hist {
			what, msg := w.step(o)
			if what == "" {
				what, msg = w.observe(o)
			}
			if what != "" {
				return mkViol(c.MaxTTL, "tree", c.Hist[:j+1], what, msg)
			}
		}
		return nil
	}
	if len(c.Hist) == 0 {
		return nil
	}
	w := replayHist(c.MaxTTL, c.Hist[:len(c.Hist)-1])
	defer w.c.Stop()
	o := c.Hist[len(c.Hist)-1]
	what, msg := w.step(o)
	if what == "" {
		what, msg = w.observe(o)
	}
	if what != "" {
		return mkViol(c.MaxTTL, "bfs", c.Hist, what, msg)
	}
	return nil
}

func TestCheck(t *testing.T) { enumx.Main(t, "C15", "sequential", run) }
