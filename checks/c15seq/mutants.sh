#!/bin/sh
# Demonstrates that the C15 "sequential" part detects deliberate
# property-breaking changes. /repo is never touched: mcgen writes an
# (unchanged) copy of ttlcache.go plus the accessor into a scratch overlay, the
# copy is edited and the part is run with `go test -overlay`.
set -e
export GOFLAGS=-mod=mod GOPROXY=off GOSUMDB=off GOTOOLCHAIN=local
cd /verif
D=$(mktemp -d /tmp/c15seq-mut.XXXXXX)
trap 'rm -rf "$D"' EXIT
F="$D/g/src/ttlcache/ttlcache.go"
gen() { rm -rf "$D/g"; ./bin/mcgen -noconc -add ttlcache=/verif/checks/c15seq/access.go.txt -out "$D/g" github.com/dapr/kit/ttlcache; }
runit() { echo "== $1"; VERIF_ROOT="$D/root" go test -tags unit -overlay "$D/g/overlay.json" -vet=off ./checks/c15seq -run TestCheck -v -args -tier quick 2>&1 | grep -v "^ok\|^FAIL\|^---\|^PASS\|^=== RUN\|^exit status" | cut -c1-330 | awk '/^FINDING/{k=$0; getline m; n[k]++; if(n[k]==1) first[k]=m; next} {print} END{for(k in n) print k " x" n[k] "\n" first[k]}'; }
# ONLY="d f" ./mutants.sh runs a subset
want() { [ -z "$ONLY" ] || case " $ONLY " in *" $1 "*) true;; *) false;; esac; }
changed() { cmp -s "$F" "$D/orig.go" && { echo "mutation did not apply"; exit 2; } || true; }

gen; cp "$F" "$D/orig.go"
runit "baseline (unchanged code)"

if want d; then
gen; sed -i 's/if !ok || !val.exp.After(c.clock.Now()) {/if !ok || val.exp.Before(c.clock.Now()) {/' "$F"; changed
runit "d: Get uses exp.Before(now) instead of !exp.After(now) (value served exactly at expiry)"
fi

if want e; then
gen; sed -i 's/if c.maxTTL > 0 \&\& ttl > c.maxTTL {/if c.maxTTL > 0 \&\& ttl < c.maxTTL {/' "$F"; changed
runit "e: MaxTTL cap applied only when ttl < maxTTL (short TTLs stretched, long ones never capped)"
fi

if want e2; then
gen; perl -0pi -e 's/if c.maxTTL > 0 && ttl > c.maxTTL \{\n\t\tttl = c.maxTTL\n\t\}/if c.maxTTL > 0 \&\& ttl < c.maxTTL \&\& false {\n\t\tttl = c.maxTTL\n\t}/' "$F"; changed
runit "e2: MaxTTL never applied"
fi

if want f; then
gen; sed -i 's/if v.exp.Before(now) {/if v.exp.After(now) {/' "$F"; changed
runit "f: Cleanup collects entries with exp.After(now) (live entries removed)"
fi

if want h; then
gen; sed -i 's/^\t\tclose(c.stopCh)$/\t\t_ = c.stopCh/' "$F"; changed
echo "(the next one waits for the 10 s guard four times)"
runit "h: Stop does not close stopCh (the cleaner never exits)"
fi

if want h2; then
gen; sed -i 's/^\t\tclose(c.stopCh)$/\t\tif c.m.Len() == 0 {\n\t\t\tclose(c.stopCh)\n\t\t}/' "$F"; changed
runit "h2: Stop closes stopCh only when the cache is empty"
fi
