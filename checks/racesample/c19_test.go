package racesample

import (
	"context"
	"crypto/ecdsa"
	"crypto/elliptic"
	"crypto/rand"
	"crypto/x509"
	"crypto/x509/pkix"
	"errors"
	"fmt"
	"io"
	"math/big"
	"net/url"
	"os"
	"path/filepath"
	"runtime"
	"sync/atomic"
	"time"

	"github.com/dapr/kit/crypto/pem"
	"github.com/dapr/kit/crypto/spiffe"
	"github.com/dapr/kit/crypto/spiffe/trustanchors"
	"github.com/dapr/kit/logger"
)

// C19: crypto/spiffe. No clock can be injected through the public API, so the
// real clock is used and renewals are provoked by certificates that are
// already past half of their validity when issued (the renewal is then due at
// once); the last certificate of a round is long-lived, which parks the
// rotation loop until the round cancels Run's context.

type issuer struct {
	caKey  *ecdsa.PrivateKey
	caCert *x509.Certificate
	caPEM  []byte
}

func newIssuer() (*issuer, error) {
	key, err := ecdsa.GenerateKey(elliptic.P256(), rand.Reader)
	if err != nil {
		return nil, err
	}
	tmpl := &x509.Certificate{
		SerialNumber: big.NewInt(1), Subject: pkix.Name{CommonName: "verif racesample CA"},
		NotBefore: time.Now().Add(-time.Hour), NotAfter: time.Now().Add(10000 * time.Hour),
		IsCA: true, BasicConstraintsValid: true, KeyUsage: x509.KeyUsageCertSign,
	}
	der, err := x509.CreateCertificate(rand.Reader, tmpl, tmpl, &key.PublicKey, key)
	if err != nil {
		return nil, err
	}
	cert, err := x509.ParseCertificate(der)
	if err != nil {
		return nil, err
	}
	p, err := pem.EncodeX509(cert)
	if err != nil {
		return nil, err
	}
	return &issuer{caKey: key, caCert: cert, caPEM: p}, nil
}

// sign issues a leaf for the key in the CSR. shortLived = already past half
// of its validity (renewal due at once).
func (is *issuer) sign(csrDER []byte, serial int64, shortLived bool) ([]*x509.Certificate, error) {
	csr, err := x509.ParseCertificateRequest(csrDER)
	if err != nil {
		return nil, err
	}
	now := time.Now()
	nb, na := now.Add(-time.Minute), now.Add(100000*time.Hour)
	if shortLived {
		nb, na = now.Add(-2*time.Hour), now.Add(time.Hour)
	}
	tmpl := &x509.Certificate{
		SerialNumber: big.NewInt(serial), NotBefore: nb, NotAfter: na,
		URIs:     []*url.URL{{Scheme: "spiffe", Host: "example.org", Path: "/ns/default/app"}},
		KeyUsage: x509.KeyUsageDigitalSignature,
	}
	der, err := x509.CreateCertificate(rand.Reader, tmpl, is.caCert, csr.PublicKey, is.caKey)
	if err != nil {
		return nil, err
	}
	leaf, err := x509.ParseCertificate(der)
	if err != nil {
		return nil, err
	}
	return []*x509.Certificate{leaf, is.caCert}, nil
}

func init() {
	register(&workload{
		name: "c19", property: "C19",
		rule: "per round ONE SPIFFE object on the real clock whose issuer hands out 5 certificates that are already past half-life (each is renewed at once) and then a long-lived one (every third round: then fails instead; every fifth round: fails the initial fetch); 4 consumer goroutines x 30 GetX509SVID (two of them call Ready first), started before Run on odd rounds and after it on even rounds; every eighth round the identity is also written to a directory while a reader resolves the link and loads key and chain. Checked: Ready and GetX509SVID return, every SVID served was issued, carries the private key that belongs to its certificate, and serial numbers never go back for one consumer; the most recent good SVID is served at the end (also after a failed renewal); a failed initial fetch gives Run an error, Ready nil and GetX509SVID an error; a file set read through one resolved link has a key that matches its chain; a second Run is refused; Run returns once its context ends.",
		run:  runC19,
	})
}

func runC19(s *sess) map[string]any {
	rounds := s.rounds(400)
	done := 0
	is, err := newIssuer()
	if err != nil {
		s.bad("internal/test-ca", err.Error(), 0)
		return nil
	}
	log := logger.NewLogger("verif-racesample-c19")
	log.SetOutput(io.Discard)
	scratch := os.Getenv("VERIF_SCRATCH")
	var bases []string
	defer func() {
		for _, b := range bases {
			os.RemoveAll(b)
		}
	}()
	for round := 0; round < rounds && s.more(); round++ {
		var g group
		variant := round + s.seed
		const shortLived = 5
		failInitial := variant%5 == 4
		failRenewal := !failInitial && variant%3 == 2
		withDir := variant%8 == 1

		var calls, lastGood atomic.Int64
		errIssuer := errors.New("issuer unavailable")
		opts := spiffe.Options{Log: log, RequestSVIDFn: func(_ context.Context, csr []byte) ([]*x509.Certificate, error) {
			n := calls.Add(1)
			switch {
			case failInitial && n == 1:
				return nil, errIssuer
			case n <= shortLived:
				c, err := is.sign(csr, n, true)
				if err == nil {
					lastGood.Store(n)
				}
				return c, err
			case failRenewal:
				return nil, errIssuer
			default:
				c, err := is.sign(csr, n, false)
				if err == nil {
					lastGood.Store(n)
				}
				return c, err
			}
		}}
		var idDir string
		if withDir {
			base, err := os.MkdirTemp(scratch, "racesample-c19-")
			if err != nil {
				s.bad("internal/scratch-dir", err.Error(), round)
				break
			}
			bases = append(bases, base)
			idDir = filepath.Join(base, "identity")
			ta, err := trustanchors.FromStatic(is.caPEM)
			if err != nil {
				s.bad("internal/trust-anchors", err.Error(), round)
				break
			}
			opts.WriteIdentityToFile = &idDir
			opts.TrustAnchors = ta
		}
		sp := spiffe.New(opts)
		src := sp.SVIDSource()
		s.op(2)

		ctx, cancel := context.WithCancel(context.Background())
		runDone := make(chan error, 1)
		startRun := func() {
			go func() {
				defer func() {
					if p := recover(); p != nil {
						g.fail("panic/spiffe.Run", "Run panicked: %v", p)
						runDone <- nil
					}
				}()
				runDone <- sp.Run(ctx)
			}()
		}
		if variant%2 == 0 {
			startRun()
		}
		for w := 0; w < 4; w++ {
			w := w
			g.Go(fmt.Sprint("consumer-", w), func() {
				if w%2 == 0 {
					if err := sp.Ready(ctx); err != nil {
						g.fail("spiffe/ready-returned-an-error", "Ready with a live context: %v", err)
						return
					}
					s.op(1)
				}
				prev := int64(0)
				for i := 0; i < 30; i++ {
					svid, err := src.GetX509SVID()
					s.op(1)
					if failInitial {
						if err == nil {
							g.fail("spiffe/svid-served-after-failed-initial-fetch", "GetX509SVID returned serial %v although the initial fetch failed", svid.Certificates[0].SerialNumber)
						}
						return
					}
					if err != nil || svid == nil || len(svid.Certificates) == 0 {
						g.fail("spiffe/no-svid-after-successful-fetch", "GetX509SVID: %v", err)
						return
					}
					serial := svid.Certificates[0].SerialNumber.Int64()
					if serial < 1 || serial > calls.Load() {
						g.fail("spiffe/served-svid-was-never-issued", "serial %d served, the issuer was called %d times", serial, calls.Load())
					}
					if serial < prev {
						g.fail("spiffe/older-svid-served-after-newer", "one consumer saw serial %d after serial %d", serial, prev)
					}
					prev = serial
					pub, ok := svid.Certificates[0].PublicKey.(*ecdsa.PublicKey)
					if !ok || svid.PrivateKey == nil || !pub.Equal(svid.PrivateKey.Public()) {
						g.fail("spiffe/private-key-does-not-belong-to-the-certificate", "serial %d is served with another fetch's private key", serial)
					}
					if svid.ID.String() != "spiffe://example.org/ns/default/app" {
						g.fail("spiffe/wrong-id", "served SVID has id %q", svid.ID.String())
					}
					if i%4 == w%4 {
						runtime.Gosched()
					}
				}
			})
		}
		readFileSet := func(must bool) (serial int64, ok bool) {
			dirNow, err := os.Readlink(idDir)
			if err != nil {
				if must {
					g.fail("spiffe/identity-not-published", "the identity directory link cannot be resolved after a successful fetch: %v", err)
				}
				return 0, false // not published yet
			}
			keyPEM, err1 := os.ReadFile(filepath.Join(dirNow, "key.pem"))
			certPEM, err2 := os.ReadFile(filepath.Join(dirNow, "cert.pem"))
			caPEM, err3 := os.ReadFile(filepath.Join(dirNow, "ca.pem"))
			if err1 != nil || err2 != nil || err3 != nil {
				if must {
					g.fail("spiffe/identity-not-published", "the published file set is incomplete: %v %v %v", err1, err2, err3)
				}
				return 0, false // that generation was replaced and removed meanwhile
			}
			s.tally("file_sets_read", 1)
			key, err := pem.DecodePEMPrivateKey(keyPEM)
			chain, err2 := pem.DecodePEMCertificates(certPEM)
			if err != nil || err2 != nil || len(chain) == 0 {
				g.fail("spiffe/published-files-unreadable", "key: %v, chain: %v", err, err2)
				return 0, false
			}
			if eq, err := pem.PublicKeysEqual(key.Public(), chain[0].PublicKey); err != nil || !eq {
				g.fail("spiffe/published-key-does-not-match-published-chain", "directory %s: key.pem is not the key of cert.pem (serial %v)", filepath.Base(dirNow), chain[0].SerialNumber)
			}
			if string(caPEM) != string(is.caPEM) {
				g.fail("spiffe/published-trust-anchors-wrong", "ca.pem differs from the current trust anchors")
			}
			return chain[0].SerialNumber.Int64(), true
		}
		stopReader := make(chan struct{})
		var fr group
		if withDir {
			fr.Go("file-reader", func() {
				for i := 0; i < 2000; i++ {
					select {
					case <-stopReader:
						return
					default:
					}
					readFileSet(false)
					runtime.Gosched()
				}
			})
		}
		if variant%2 == 1 {
			for i := 0; i < variant%4; i++ {
				runtime.Gosched()
			}
			startRun()
		}
		if !g.Wait() {
			cancel()
			g.flush(s, round)
			s.hang("Ready/GetX509SVID returning (Run was started and its initial fetch finishes)", round)
			cancel()
			break
		}

		if failInitial {
			select {
			case err := <-runDone:
				if err == nil {
					g.fail("spiffe/run-hid-a-failed-initial-fetch", "Run returned nil although the initial fetch failed")
				}
			case <-time.After(hangTimeout):
				cancel()
				s.hang("Run returning after a failed initial fetch", round)
			}
			if !s.more() {
				cancel()
				break
			}
			if err := sp.Ready(context.Background()); err != nil {
				g.fail("spiffe/ready-returned-an-error", "Ready after a failed initial fetch: %v", err)
			}
			s.op(1)
		} else {
			// all renewals are due at once: the final state is reached without
			// anybody waiting for wall-clock time
			want := int64(shortLived + 1)
			if failRenewal {
				want = shortLived
			}
			if !eventually(func() bool {
				if failRenewal && calls.Load() <= shortLived {
					return false // the failing renewal has not been attempted yet
				}
				svid, err := src.GetX509SVID()
				return err == nil && svid.Certificates[0].SerialNumber.Int64() == want
			}, nil) {
				svid, err := src.GetX509SVID()
				cancel()
				got := "none"
				if err == nil {
					got = svid.Certificates[0].SerialNumber.String()
				}
				s.bad("spiffe/most-recent-good-svid-not-served", fmt.Sprintf("the issuer was called %d times, the most recent good certificate has serial %d, GetX509SVID serves %s (err %v) after %s", calls.Load(), lastGood.Load(), got, err, hangTimeout), round)
				s.stopped.Store(true)
				cancel()
				break
			}
			if withDir {
				// the files are written before the SVID is swapped in
				if serial, ok := readFileSet(true); ok && serial != want {
					g.fail("spiffe/published-files-are-not-the-served-svid", "serial %d is served, the published chain has serial %d", want, serial)
				}
			}
			if failRenewal {
				// the failed renewal must not disturb what is served
				if svid, err := src.GetX509SVID(); err != nil || svid.Certificates[0].SerialNumber.Int64() != want {
					g.fail("spiffe/failed-renewal-disturbed-the-served-svid", "after a failed renewal GetX509SVID gives %v", err)
				}
			}
			if err := sp.Run(context.Background()); err == nil {
				g.fail("spiffe/second-run-accepted", "a second Run returned nil")
			}
			s.op(2)
			cancel()
			select {
			case err := <-runDone:
				if err != nil {
					g.fail("spiffe/run-returned-an-error", "Run returned %v after its context ended", err)
				}
			case <-time.After(hangTimeout):
				s.hang("Run returning after its context ended", round)
			}
			if !s.more() {
				cancel()
				break
			}
		}
		cancel()
		close(stopReader)
		if !fr.Wait() {
			s.hang("the test's file reader stopping", round)
			cancel()
			break
		}
		fr.flush(s, round)
		s.tally("certificates_issued", lastGood.Load())
		g.flush(s, round)
		if idDir != "" {
			os.RemoveAll(filepath.Dir(idDir))
		}
		done++
	}
	return map[string]any{"rounds": done, "goroutines_per_round": "Run + 4 consumers (+1 file reader)"}
}
