package racesample

import (
	"context"
	"fmt"
	"runtime"
	"sync/atomic"

	"github.com/dapr/kit/events/broadcaster"
)

// C11: events/broadcaster.
//
// Kept out on purpose: Close while a Broadcast is blocked on a subscriber
// that never reads and never cancels (outside the property), and Close before
// the staying subscribers have received everything (known finding
// broadcaster/close-drops-accepted-values) — every reader here keeps reading
// until Close has returned, or cancels its own context, and Close is called
// only once every staying subscriber has received every value.

type bval struct{ from, seq int }

type bsub struct {
	ch       chan bval
	got      []bval // owned by the reader goroutine until it is joined
	received atomic.Int64
}

// read collects until stop is closed (stayers) or n values arrived (leavers).
func (b *bsub) read(stop <-chan struct{}, n int) {
	for n != 0 {
		select {
		case v := <-b.ch:
			b.got = append(b.got, v)
			b.received.Add(1)
			n--
		case <-stop:
			return
		}
	}
}

func init() {
	register(&workload{
		name: "c11", property: "C11",
		rule: "per round ONE Broadcaster: 3 subscribers that stay (subscribed before the first Broadcast, prompt readers), one that reads 5 values, cancels its context and stops reading, one that subscribes while broadcasts are under way; 3 goroutines x 40 Broadcast; once every staying subscriber has everything, Close from two goroutines. Checked: each staying subscriber receives every value exactly once, all of them in one common order that keeps each broadcaster's order, the others receive nothing twice and nothing out of a broadcaster's order, nothing is delivered after Close returned, everything returns.",
		run:  runC11,
	})
}

func runC11(s *sess) map[string]any {
	const B, N, S = 3, 40, 3
	rounds := s.rounds(1200)
	done := 0
	for round := 0; round < rounds && s.more(); round++ {
		var g, readers group
		variant := round + s.seed
		b := broadcaster.New[bval]()
		stop := make(chan struct{})
		stayers := make([]*bsub, S)
		for i := range stayers {
			stayers[i] = &bsub{ch: make(chan bval)}
			b.Subscribe(context.Background(), stayers[i].ch)
			s.op(1)
			sub := stayers[i]
			readers.Go("stayer", func() { sub.read(stop, -1) })
		}
		leaver := &bsub{ch: make(chan bval)}
		lctx, lcancel := context.WithCancel(context.Background())
		b.Subscribe(lctx, leaver.ch)
		s.op(1)
		readers.Go("leaver", func() {
			leaver.read(stop, 5)
			lcancel() // leaves with values possibly buffered for it; never reads again
		})
		joiner := &bsub{ch: make(chan bval)}
		g.Go("joiner", func() {
			for i := 0; i < (variant%7)*3; i++ {
				runtime.Gosched()
			}
			b.Subscribe(context.Background(), joiner.ch)
			s.op(1)
			readers.Go("joiner-reader", func() { joiner.read(stop, -1) })
		})
		for w := 0; w < B; w++ {
			w := w
			g.Go(fmt.Sprint("broadcaster-", w), func() {
				for i := 0; i < N; i++ {
					b.Broadcast(bval{w, i})
					s.op(1)
					if (i+w+variant)%5 == 0 {
						runtime.Gosched()
					}
				}
			})
		}
		if !g.Wait() {
			g.flush(s, round)
			s.hang("Broadcast/Subscribe returning while every subscriber reads or has cancelled", round)
			break
		}
		// Close only once the staying subscribers have everything (see above)
		if !eventually(func() bool {
			for _, st := range stayers {
				if st.received.Load() < B*N {
					return false
				}
			}
			return true
		}, nil) {
			for i, st := range stayers {
				if n := st.received.Load(); n < B*N {
					s.bad("broadcaster/value-never-delivered-to-a-staying-subscriber", fmt.Sprintf("all %d Broadcast calls returned, the broadcaster is open, subscriber %d reads promptly and has received only %d values after %s", B*N, i, n, hangTimeout), round)
				}
			}
			s.stopped.Store(true)
			close(stop)
			break
		}
		var cg group
		for c := 0; c < 2; c++ {
			cg.Go("closer", func() { b.Close(); s.op(1) })
		}
		if !cg.Wait() {
			s.hang("Close returning (no Broadcast in flight, every subscriber reads or has cancelled)", round)
			close(stop)
			break
		}
		cg.flush(s, round)
		close(stop)
		if !readers.Wait() {
			s.hang("test readers stopping", round)
			break
		}
		readers.flush(s, round)
		// nothing can arrive any more: every forwarder has finished
		for i, sub := range append(append([]*bsub{}, stayers...), leaver, joiner) {
			select {
			case v := <-sub.ch:
				g.fail("broadcaster/delivery-after-close-returned", "subscriber %d received %v after Close returned", i, v)
			default:
			}
		}
		b.Broadcast(bval{-1, -1}) // no-op on a closed broadcaster
		b.Subscribe(context.Background(), make(chan bval))
		s.op(2)

		for i, st := range stayers {
			if len(st.got) != B*N {
				g.fail("broadcaster/not-exactly-once", "staying subscriber %d received %d values for %d Broadcast calls", i, len(st.got), B*N)
			}
			checkOrder(&g, fmt.Sprint("staying subscriber ", i), st.got, B, true)
			if i > 0 && fmt.Sprint(st.got) != fmt.Sprint(stayers[0].got) {
				g.fail("broadcaster/no-common-order", "staying subscribers 0 and %d received the values in different orders", i)
			}
		}
		checkOrder(&g, "the subscriber that left", leaver.got, B, false)
		checkOrder(&g, "the subscriber that joined late", joiner.got, B, false)
		g.flush(s, round)
		done++
	}
	return map[string]any{"rounds": done, "goroutines_per_round": B + S + 5, "broadcasts_per_round": B * N}
}

// checkOrder: per broadcaster strictly increasing sequence numbers (nothing
// twice, nothing out of order); complete = starting at 0 without gaps.
func checkOrder(g *group, who string, got []bval, producers int, complete bool) {
	last := make([]int, producers)
	for i := range last {
		last[i] = -1
	}
	for _, v := range got {
		if v.from < 0 || v.from >= producers {
			g.fail("broadcaster/value-nobody-sent", "%s received %v", who, v)
			return
		}
		if v.seq <= last[v.from] || (complete && v.seq != last[v.from]+1) {
			g.fail("broadcaster/duplicate-or-out-of-order", "%s received value %d of broadcaster %d after value %d", who, v.seq, v.from, last[v.from])
			return
		}
		last[v.from] = v.seq
	}
}
