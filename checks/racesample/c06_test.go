package racesample

import (
	"fmt"
	"runtime"
	"sync/atomic"
	"time"

	"github.com/dapr/kit/events/queue"
)

// C06: queue.Processor with an injected fake clock that a stepper goroutine
// advances while several goroutines Enqueue / Dequeue.

type qitem struct {
	key  string
	at   time.Time
	runs atomic.Int32
	// live: never dequeued or replaced, and its time is reached => exactly once.
	// dead: scheduled far beyond anything the clock reaches and dequeued or
	// replaced => never.
	live, dead bool
}

func (q *qitem) Key() string              { return q.key }
func (q *qitem) ScheduledTime() time.Time { return q.at }

func init() {
	register(&workload{
		name: "c06", property: "C06",
		rule: "per round ONE Processor on a fake clock: 4 goroutines x 40 steps (Enqueue due now; Enqueue due in 1-3 s; Enqueue far in the future then Dequeue; Enqueue far in the future then replace by the same key due in 1 s; Dequeue of an absent key; keys private to the caller, one shared heap) while a stepper goroutine advances the clock in 500 ms steps; then the clock runs on until every live item was handed over, then Close (every third round: from two goroutines; every fourth round ONE Close call overlaps the last Enqueue calls). Checked: every live item is executed exactly once before Close is called (rounds where Close overlaps: at most once), an item dequeued or replaced long before its time never, nothing twice, no callback after Close returned, everything returns.",
		run:  func(s *sess) map[string]any { return runC06(s, false) },
	})
	register(&workload{
		name: "c06-close-close-enqueue", property: "C06",
		rule: "OPT-IN sub-workload, not registered in any spec: as c06, but every round calls Close from TWO goroutines while the last Enqueue calls are still being made.",
		run:  func(s *sess) map[string]any { return runC06(s, true) },
	})
}

// closeCloseEnqueue selects the opt-in pattern "two concurrent Close calls
// overlapping Enqueue" (see NOTES.md, observations outside the properties); the
// registered workload overlaps Enqueue with ONE Close call only and uses two
// concurrent Close calls only when no Enqueue is in flight.
func runC06(s *sess, closeCloseEnqueue bool) map[string]any {
	const G, N = 4, 40
	rounds := s.rounds(1000)
	done := 0
	t0 := time.Date(2024, 1, 1, 0, 0, 0, 0, time.UTC)
	far := t0.Add(1000000 * time.Hour)
	for round := 0; round < rounds && s.more(); round++ {
		var g group
		variant := round + s.seed
		clk := newNBClock(t0) // timers that never block the clock and fire at once when already due (nbclock_test.go)
		var executed atomic.Int64
		var closedReturned atomic.Bool
		proc := queue.NewProcessor[string, *qitem](func(it *qitem) {
			if closedReturned.Load() {
				g.fail("queue.Processor/callback-after-close-returned", "item %q was executed after Close returned", it.key)
			}
			if n := it.runs.Add(1); n > 1 {
				g.fail("queue.Processor/item-executed-twice", "item %q (due %s) was handed to the callback %d times", it.key, it.at.Sub(t0), n)
			}
			if it.dead {
				g.fail("queue.Processor/dequeued-or-replaced-item-executed", "item %q scheduled for the far future and dequeued or replaced right away was executed", it.key)
			}
			executed.Add(1)
		}).WithClock(clk)

		overlapClose := variant%4 == 3 || closeCloseEnqueue
		items := make([][]*qitem, G)
		var workersDone atomic.Int32
		for w := 0; w < G; w++ {
			w := w
			g.Go(fmt.Sprint("enqueuer-", w), func() {
				defer workersDone.Add(1)
				add := func(it *qitem) *qitem {
					items[w] = append(items[w], it)
					return it
				}
				for i := 0; i < N; i++ {
					key := fmt.Sprintf("k%d-%d", w, i)
					switch (w*3 + i + variant) % 6 {
					case 0, 1:
						proc.Enqueue(add(&qitem{key: key, at: clk.Now(), live: true}))
						s.op(1)
					case 2:
						proc.Enqueue(add(&qitem{key: key, at: clk.Now().Add(time.Duration(1+i%3) * time.Second), live: true}))
						s.op(1)
					case 3:
						proc.Enqueue(add(&qitem{key: key, at: far, dead: true}))
						proc.Dequeue(key)
						s.op(2)
					case 4:
						proc.Enqueue(add(&qitem{key: key, at: far.Add(time.Duration(i) * time.Hour), dead: true}))
						proc.Enqueue(add(&qitem{key: key, at: clk.Now().Add(time.Second), live: true}))
						s.op(2)
					case 5:
						proc.Dequeue(key + "-absent")
						s.op(1)
					}
				}
			})
		}
		stopStepper := make(chan struct{})
		stepperDone := make(chan struct{})
		go func() {
			defer close(stepperDone)
			for {
				select {
				case <-stopStepper:
					return
				default:
				}
				clk.Step(500 * time.Millisecond)
				runtime.Gosched()
			}
		}()

		doClose := func() bool {
			closers := 1
			if (variant%3 == 0 && !overlapClose) || closeCloseEnqueue {
				closers = 2
			}
			var cg group
			for c := 0; c < closers; c++ {
				cg.Go("closer", func() {
					if err := proc.Close(); err != nil {
						g.fail("queue.Processor/close-failed", "Close returned %v", err)
					}
					closedReturned.Store(true)
					s.op(1)
				})
			}
			ok := cg.Wait()
			cg.flush(s, round)
			return ok
		}

		hung := false
		if overlapClose {
			// Close while the last Enqueue calls are still being made
			eventually(func() bool { return workersDone.Load() >= 2 }, nil)
			if !doClose() {
				hung = true
			}
		}
		if !g.Wait() {
			hung = true
		}
		if hung {
			close(stopStepper)
			g.flush(s, round)
			s.hang("Enqueue/Dequeue/Close returning", round)
			break
		}
		if !overlapClose {
			// let the clock run on until every live item was handed over
			pending := func() *qitem {
				for w := range items {
					for _, it := range items[w] {
						if it.live && it.runs.Load() == 0 {
							return it
						}
					}
				}
				return nil
			}
			if !eventually(func() bool { return pending() == nil }, nil) {
				it := pending()
				close(stopStepper)
				g.flush(s, round)
				if it != nil {
					s.bad("queue.Processor/live-item-never-executed", fmt.Sprintf("item %q due at +%s was enqueued, never dequeued or replaced, the clock is at +%s and still advancing, and it was not executed within %s", it.key, it.at.Sub(t0), clk.Now().Sub(t0), hangTimeout), round)
				}
				s.stopped.Store(true)
				break
			}
			if !doClose() {
				close(stopStepper)
				s.hang("Close returning", round)
				break
			}
		}
		close(stopStepper)
		<-stepperDone
		atClose := executed.Load()
		clk.Step(time.Hour)
		runtime.Gosched()
		for w := range items {
			for _, it := range items[w] {
				n := it.runs.Load()
				// (a Close that overlaps the run may drop items that were not yet due)
				if it.live && n != 1 && !overlapClose {
					g.fail("queue.Processor/live-item-not-executed-exactly-once", "item %q executed %d times", it.key, n)
				}
				if it.dead && n != 0 {
					g.fail("queue.Processor/dequeued-or-replaced-item-executed", "item %q executed %d times", it.key, n)
				}
			}
		}
		if after := executed.Load(); after != atClose {
			g.fail("queue.Processor/callback-after-close-returned", "%d callbacks ran after Close returned", after-atClose)
		}
		g.flush(s, round)
		done++
	}
	return map[string]any{"rounds": done, "goroutines_per_round": G + 2, "operations_per_enqueuer": N}
}
