package racesample

import (
	"context"
	"fmt"
	"runtime"
	"sync/atomic"
	"time"

	"github.com/dapr/kit/events/batcher"
)

// C10: events/batcher on a fake clock.
//
// Kept out on purpose: Close while a delivery is blocked on a subscriber that
// never reads and never cancels (outside the property). Every reader here
// reads until its channel is closed, or cancels its own context.

type kval struct {
	key int
	seq int
}

const c10Keys = 6

type ksub struct {
	ch   chan kval
	got  []kval // owned by the reader goroutine until it is joined
	last [c10Keys]atomic.Int64
}

// read collects until the channel is closed or n values arrived.
func (k *ksub) read(n int) (closed bool) {
	for n != 0 {
		v, ok := <-k.ch
		if !ok {
			return true
		}
		k.got = append(k.got, v)
		if v.key >= 0 && v.key < c10Keys {
			k.last[v.key].Store(int64(v.seq))
		}
		n--
	}
	return false
}

func init() {
	register(&workload{
		name: "c10", property: "C10",
		rule: "per round ONE Batcher (interval 10 ms) on a fake clock stepped in 5 ms steps by its own goroutine: 3 subscribers that stay (subscribed first, read until their channel is closed), one that reads 3 values, cancels its context and stops reading, one that subscribes while Batch calls are under way; 3 goroutines x 30 Batch over 2 keys each with increasing values; the clock runs on until every staying subscriber holds the last value of every key, then Close (every other round from two goroutines). Checked: per key every subscriber sees strictly increasing values (nothing twice), every staying subscriber ends with the most recent value of every key, all staying subscribers see the same sequence, every subscriber channel is closed once Close returned, everything returns.",
		run:  runC10,
	})
}

func runC10(s *sess) map[string]any {
	const P, N, S = 3, 30, 3
	rounds := s.rounds(1500)
	done := 0
	t0 := time.Date(2024, 1, 1, 0, 0, 0, 0, time.UTC)
	for round := 0; round < rounds && s.more(); round++ {
		var g, readers group
		variant := round + s.seed
		clk := newNBClock(t0) // timers that never block the clock and fire at once when already due (nbclock_test.go)
		b := batcher.New[int, kval](10 * time.Millisecond)
		b.WithClock(clk)

		stayers := make([]*ksub, S)
		for i := range stayers {
			stayers[i] = &ksub{ch: make(chan kval)}
			for k := range stayers[i].last {
				stayers[i].last[k].Store(-1)
			}
			b.Subscribe(context.Background(), stayers[i].ch)
			s.op(1)
			sub := stayers[i]
			readers.Go("stayer", func() {
				if !sub.read(-1) {
					g.fail("batcher/reader-stopped-early", "internal: reader stopped before its channel was closed")
				}
			})
		}
		leaver := &ksub{ch: make(chan kval)}
		lctx, lcancel := context.WithCancel(context.Background())
		b.Subscribe(lctx, leaver.ch)
		s.op(1)
		readers.Go("leaver", func() {
			leaver.read(3)
			lcancel() // leaves, possibly with events buffered for it; never reads again
		})
		joiner := &ksub{ch: make(chan kval)}
		g.Go("joiner", func() {
			for i := 0; i < (variant%7)*3; i++ {
				runtime.Gosched()
			}
			b.Subscribe(context.Background(), joiner.ch)
			s.op(1)
			readers.Go("joiner-reader", func() { joiner.read(-1) })
		})
		var final [c10Keys]atomic.Int64
		for w := 0; w < P; w++ {
			w := w
			g.Go(fmt.Sprint("batch-", w), func() {
				seq := [2]int{}
				for i := 0; i < N; i++ {
					k := (i + i/3) % 2
					key := w*2 + k
					b.Batch(key, kval{key, seq[k]})
					final[key].Store(int64(seq[k]))
					seq[k]++
					s.op(1)
					if (i+w+variant)%4 == 0 {
						runtime.Gosched()
					}
				}
			})
		}
		stopStepper := make(chan struct{})
		stepperDone := make(chan struct{})
		go func() {
			defer close(stepperDone)
			for {
				select {
				case <-stopStepper:
					return
				default:
				}
				clk.Step(5 * time.Millisecond)
				runtime.Gosched()
			}
		}()
		stopClock := func() { close(stopStepper); <-stepperDone }

		if !g.Wait() {
			stopClock()
			g.flush(s, round)
			s.hang("Batch/Subscribe returning while every subscriber reads or has cancelled", round)
			break
		}
		// the clock runs on: the last value of every key must reach every stayer
		behind := func() (int, int) {
			for i, st := range stayers {
				for k := range final {
					if st.last[k].Load() != final[k].Load() {
						return i, k
					}
				}
			}
			return -1, -1
		}
		if !eventually(func() bool { i, _ := behind(); return i < 0 }, nil) {
			i, k := behind()
			stopClock()
			if i >= 0 {
				s.bad("batcher/last-value-of-a-key-never-delivered", fmt.Sprintf("key %d: the most recent Batch carried value %d, the clock is %s past the start and still advancing, staying subscriber %d last saw %d for that key (after %s)", k, final[k].Load(), clk.Now().Sub(t0), i, stayers[i].last[k].Load(), hangTimeout), round)
			}
			s.stopped.Store(true)
			break
		}
		var cg group
		closers := 1 + variant%2
		for c := 0; c < closers; c++ {
			cg.Go("closer", func() { b.Close(); s.op(1) })
		}
		if !cg.Wait() {
			stopClock()
			s.hang("Close returning (every subscriber reads or has cancelled)", round)
			break
		}
		cg.flush(s, round)
		stopClock()
		// "after Close returns every subscriber channel has been closed"
		if !readers.Wait() {
			s.hang("a staying subscriber seeing its channel closed after Close returned", round)
			break
		}
		readers.flush(s, round)
		select {
		case v, ok := <-leaver.ch:
			if ok {
				g.fail("batcher/delivery-after-close-returned", "the subscriber that left received %v after Close returned", v)
			}
		default:
			g.fail("batcher/subscriber-channel-not-closed-after-close", "Close returned and the channel of the subscriber that left is still open")
		}
		b.Batch(0, kval{0, -5}) // no-ops on a closed batcher
		b.Subscribe(context.Background(), make(chan kval))
		s.op(2)

		ref := fmt.Sprint(stayers[0].got)
		for i, st := range stayers {
			checkKeyOrder(&g, fmt.Sprint("staying subscriber ", i), st.got)
			for k := range final {
				if st.last[k].Load() != final[k].Load() {
					g.fail("batcher/last-value-of-a-key-never-delivered", "staying subscriber %d ended with value %d for key %d, the most recent Batch carried %d", i, st.last[k].Load(), k, final[k].Load())
				}
			}
			if i > 0 && fmt.Sprint(st.got) != ref {
				g.fail("batcher/subscribers-saw-different-sequences", "staying subscribers 0 and %d saw different sequences (%d and %d events)", i, len(stayers[0].got), len(st.got))
			}
		}
		checkKeyOrder(&g, "the subscriber that left", leaver.got)
		checkKeyOrder(&g, "the subscriber that joined late", joiner.got)
		lcancel()
		g.flush(s, round)
		done++
	}
	return map[string]any{"rounds": done, "goroutines_per_round": P + S + 5, "batch_calls_per_round": P * N}
}

// checkKeyOrder: per key strictly increasing values — nothing twice, never an
// older value after a newer one.
func checkKeyOrder(g *group, who string, got []kval) {
	var last [c10Keys]int
	for i := range last {
		last[i] = -1
	}
	for _, v := range got {
		if v.key < 0 || v.key >= c10Keys {
			g.fail("batcher/value-nobody-sent", "%s received %v", who, v)
			return
		}
		if v.seq <= last[v.key] {
			g.fail("batcher/duplicate-or-stale-value", "%s received value %d for key %d after value %d", who, v.seq, v.key, last[v.key])
			return
		}
		last[v.key] = v.seq
	}
}
