package racesample

import (
	"context"
	"fmt"
	"sync/atomic"

	kitctx "github.com/dapr/kit/context"
)

// C20: context.Pool.

func init() {
	register(&workload{
		name: "c20", property: "C20",
		rule: "per round ONE Pool of 3 initial contexts (in some rounds one of them already ended); phase 1: 3 goroutines Add 5 live contexts each and 2 goroutines call Size/Err/Done while every initial member but one ends; phase 2: 4 goroutines end all members in different orders while 2 goroutines keep adding contexts and (every other round) one goroutine calls Cancel. Checked: whenever the pool is seen done, Cancel was issued or the end of every known member (initial, or added while a member was certainly live) was issued before; Size stays within the number of contexts offered and is 0 once Cancel returned; the pool is done once all members ended or Cancel returned; everything returns.",
		run:  runC20,
	})
}

type member struct {
	ctx    context.Context
	cancel context.CancelFunc
	ended  atomic.Bool // set BEFORE cancel is called
}

func newMember() *member {
	m := &member{}
	m.ctx, m.cancel = context.WithCancel(context.Background())
	return m
}

func (m *member) end() { m.ended.Store(true); m.cancel() }

func runC20(s *sess) map[string]any {
	rounds := s.rounds(4000)
	done := 0
	for round := 0; round < rounds && s.more(); round++ {
		var g group
		variant := round + s.seed
		withCancel := variant%2 == 1

		initial := []*member{newMember(), newMember(), newMember()}
		known := make([]*member, 0, 32) // members the pool must wait for
		if variant%5 == 0 {
			initial[1].end() // offered already ended: never a member
			known = append(known, initial[0], initial[2])
		} else {
			known = append(known, initial...)
		}
		p := kitctx.NewPool(initial[0].ctx, initial[1].ctx, initial[2].ctx)
		s.op(1)
		var offered atomic.Int64
		offered.Store(3)
		var cancelIssued, cancelReturned atomic.Bool

		// doneEarly is the safety oracle; it reads the flags AFTER seeing the
		// pool done, and every flag is set before the matching cancel call.
		doneEarly := func(members []*member, when string) {
			select {
			case <-p.Done():
			default:
				return
			}
			if cancelIssued.Load() {
				return
			}
			for i, m := range members {
				if !m.ended.Load() {
					g.fail("context.Pool/done-while-a-member-is-live", "%s: the pool's context is done, Cancel was not called and known member %d of %d has not ended", when, i, len(members))
					return
				}
			}
		}

		// phase 1: the anchor initial[0] stays live, so every Add is accepted
		added := make([][]*member, 3)
		var p1 group
		for w := 0; w < 3; w++ {
			w := w
			p1.Go("adder", func() {
				for i := 0; i < 5; i++ {
					m := newMember()
					added[w] = append(added[w], m)
					offered.Add(1)
					p.Add(m.ctx)
					s.op(1)
				}
			})
		}
		for w := 0; w < 2; w++ {
			p1.Go("observer", func() {
				for i := 0; i < 10; i++ {
					if n := p.Size(); n < 0 || int64(n) > offered.Load() {
						g.fail("context.Pool/size-out-of-range", "Size() = %d with %d contexts offered", n, offered.Load())
					}
					doneEarly(initial[:1], "phase 1 (the first initial member is live)")
					_ = p.Err()
					s.op(2)
				}
			})
		}
		p1.Go("ender", func() {
			for _, m := range initial[1:] {
				m.end()
			}
		})
		if !p1.Wait() {
			s.hang("Add/Size returning", round)
			break
		}
		p1.flush(s, round)
		for _, a := range added {
			known = append(known, a...)
		}
		if n := p.Size(); n != len(known) {
			g.fail("context.Pool/size-is-not-the-members-tracked", "Size() = %d with %d members (live initial contexts + contexts added while a member was live)", n, len(known))
		}
		doneEarly(known, "between the phases")

		// phase 2: everything ends, in different orders from 4 goroutines
		late := make([][]*member, 2)
		for w := 0; w < 4; w++ {
			w := w
			g.Go("ender", func() {
				for i := range known {
					j := i
					if w%2 == 1 {
						j = len(known) - 1 - i
					}
					if j%4 == w {
						known[j].end()
						doneEarly(known, "phase 2")
					}
				}
			})
		}
		for w := 0; w < 2; w++ {
			w := w
			g.Go("late-adder", func() {
				for i := 0; i < 4; i++ {
					m := newMember()
					late[w] = append(late[w], m)
					offered.Add(1)
					p.Add(m.ctx) // accepted or ignored, depending on what has ended
					if n := p.Size(); n < 0 || int64(n) > offered.Load() {
						g.fail("context.Pool/size-out-of-range", "Size() = %d with %d contexts offered", n, offered.Load())
					}
					s.op(2)
				}
			})
		}
		if withCancel {
			g.Go("canceller", func() {
				cancelIssued.Store(true)
				p.Cancel()
				cancelReturned.Store(true)
				if n := p.Size(); n != 0 {
					g.fail("context.Pool/size-not-zero-after-cancel", "Size() = %d after Cancel returned", n)
				}
				p.Cancel() // idempotent
				s.op(3)
			})
		}
		if !g.Wait() {
			g.flush(s, round)
			s.hang("Add/Cancel/Size returning", round)
			break
		}
		for _, l := range late {
			for _, m := range l {
				m.end()
			}
		}
		// every context ever offered has ended now (or Cancel returned)
		select {
		case <-p.Done():
		default:
			if !eventually(func() bool { return p.Err() != nil }, nil) {
				g.flush(s, round)
				s.hang(fmt.Sprintf("the pool's context ending after all %d offered contexts ended (Cancel called: %v)", offered.Load(), withCancel), round)
				break
			}
		}
		if withCancel {
			if n := p.Size(); n != 0 {
				g.fail("context.Pool/size-not-zero-after-cancel", "Size() = %d after Cancel returned", n)
			}
			p.Add(context.Background())
			if n := p.Size(); n != 0 {
				g.fail("context.Pool/context-offered-after-the-end-was-tracked", "Size() = %d after Add on a cancelled pool", n)
			}
			s.op(3)
		}
		g.flush(s, round)
		done++
	}
	return map[string]any{"rounds": done, "goroutines_per_round": 13}
}
