package racesample

import (
	"context"
	"errors"
	"fmt"
	"io"
	"runtime"
	"sync/atomic"
	"time"

	"github.com/dapr/kit/concurrency"
	"github.com/dapr/kit/logger"
)

// C12: RunnerManager and RunnerCloserManager (WithFatalShutdown needs build
// tag "unit").
//
// Kept out on purpose: RunnerManager.Add concurrent with Run (documented as
// outside the property). Concurrent Add calls BEFORE Run are in. AddCloser is only called once a runner has started,
// i.e. during the run; AddCloser racing the Run CALL itself is the opt-in
// sub-workload c12-addcloser-at-start (see NOTES.md).

type closerObj struct{ fn func() error }

func (c closerObj) Close() error { return c.fn() }

var _ io.Closer = closerObj{}

func init() {
	register(&workload{
		name: "c12", property: "C12",
		rule: "per round ONE RunnerCloserManager (grace period unset on even rounds, one hour otherwise; fatal action replaced by a recorder) with 3 runners (one ends with context.Canceled, one with an error once cancelled, one returns nil or an error when triggered or cancelled) and 4 closers of the four accepted types registered up front (two return errors); once all runners have started: AddCloser from 2 goroutines, Close from 3 goroutines, the trigger and (every third round) cancellation of Run's context, all at once; every fourth round instead Close before Run. Plus ONE RunnerManager with 3 runners and Run called from 2 goroutines, and ONE manager (plain / closer manager alternating) whose 7-8 runners are supplied by 4 goroutines calling Add(one or two runners) at the same time before Run. Checked: every runner whose Add returned nil is started exactly once, no closer before the last runner returned, each registered closer invoked exactly once (an AddCloser that reported ErrManagerAlreadyClosed: never), Run and every Close return the same error joining exactly the expected errors, the fatal action never fires, a second Run is refused, Close before Run returns at once and prevents Run, exactly one of two concurrent RunnerManager.Run calls runs the runners, everything returns.",
		run:  func(s *sess) map[string]any { return runC12(s, false) },
	})
	register(&workload{
		name: "c12-addcloser-at-start", property: "C12",
		rule: "OPT-IN sub-workload, not registered in any spec: as c12, but AddCloser is also called concurrently with the Run call itself (before any runner has started).",
		run:  func(s *sess) map[string]any { return runC12(s, true) },
	})
}

func runC12(s *sess, addAtStart bool) map[string]any {
	rounds := s.rounds(8000)
	done := 0
	log := logger.NewLogger("verif-racesample-c12")
	log.SetOutput(io.Discard)
	for round := 0; round < rounds && s.more(); round++ {
		var g group
		variant := round + s.seed

		errR1, errR2 := errors.New("runner 1 failed"), errors.New("runner 2 failed")
		errC0, errC1 := errors.New("closer 0 failed"), errors.New("closer 1 failed")
		const R = 3
		var started, returned atomic.Int32
		var fatal atomic.Int32
		trigger := make(chan struct{})
		r2err := error(nil)
		if variant%2 == 1 {
			r2err = errR2
		}
		runners := []concurrency.Runner{
			func(ctx context.Context) error {
				started.Add(1)
				<-ctx.Done()
				returned.Add(1)
				return ctx.Err()
			},
			func(ctx context.Context) error {
				started.Add(1)
				<-ctx.Done()
				returned.Add(1)
				return errR1
			},
			func(ctx context.Context) error {
				started.Add(1)
				select {
				case <-trigger:
				case <-ctx.Done():
				}
				returned.Add(1)
				return r2err
			},
		}
		var grace *time.Duration
		if variant%2 == 1 {
			grace = ptr(time.Hour)
		}
		m := concurrency.NewRunnerCloserManager(log, grace, runners...)
		m.WithFatalShutdown(func() { fatal.Add(1) })
		s.op(1)

		var calls [6]atomic.Int32
		body := func(i int, err error) func() error {
			return func() error {
				if n := returned.Load(); n != R {
					g.fail("RunnerCloserManager/closer-before-all-runners-returned", "closer %d invoked when %d of %d runners had returned", i, n, R)
				}
				if n := calls[i].Add(1); n > 1 {
					g.fail("RunnerCloserManager/closer-invoked-twice", "closer %d invoked %d times", i, n)
				}
				runtime.Gosched()
				return err
			}
		}
		c0, c1, c2, c3 := body(0, errC0), body(1, errC1), body(2, nil), body(3, nil)
		if err := m.AddCloser(c0, closerObj{c1}, func(context.Context) error { return c2() }, func() { c3() }); err != nil {
			g.fail("RunnerCloserManager/valid-closer-refused", "AddCloser before Run: %v", err)
		}
		s.op(1)

		if variant%4 == 3 && !addAtStart {
			// Close on a manager that never ran returns at once and prevents Run
			ok, p := returns(func() {
				if err := m.Close(); err != nil {
					g.fail("RunnerCloserManager/close-before-run-returned-an-error", "Close before Run: %v", err)
				}
				if err := m.Run(context.Background()); !errors.Is(err, concurrency.ErrManagerAlreadyStarted) {
					g.fail("RunnerCloserManager/run-after-close-not-refused", "Run after Close returned %v", err)
				}
				if err := m.Close(); err != nil {
					g.fail("RunnerCloserManager/close-before-run-returned-an-error", "second Close: %v", err)
				}
				s.op(3)
			})
			if p != nil {
				g.fail("panic/close-before-run", "%v", p)
			}
			if !ok {
				g.flush(s, round)
				s.hang("Close before Run / Run after Close returning", round)
				break
			}
			if started.Load() != 0 || calls[0].Load()+calls[1].Load()+calls[2].Load()+calls[3].Load() != 0 {
				g.fail("RunnerCloserManager/run-after-close-not-refused", "after Close-then-Run %d runners were started and closers were invoked", started.Load())
			}
			g.flush(s, round)
			done++
			continue
		}

		runCtx, cancelRun := context.WithCancel(context.Background())
		var runErr error
		var closeErrs [3]error
		var added [2]error
		g.Go("run", func() { runErr = m.Run(runCtx); s.op(1) })
		if addAtStart {
			// racing the Run call itself
			for i := 0; i < variant%6; i++ {
				runtime.Gosched()
			}
			if err := m.AddCloser(func() error { return nil }); err != nil && !errors.Is(err, concurrency.ErrManagerAlreadyClosed) {
				g.fail("RunnerCloserManager/valid-closer-refused", "AddCloser at start: %v", err)
			}
			s.op(1)
		}
		allStarted := func() bool { return started.Load() == R }
		for i := 0; i < 2; i++ {
			i := i
			g.Go("add-closer", func() {
				if !eventually(allStarted, nil) {
					return
				}
				added[i] = m.AddCloser(body(4+i, nil))
				s.op(1)
			})
		}
		for i := 0; i < 3; i++ {
			i := i
			g.Go("close", func() {
				if !eventually(allStarted, nil) {
					return
				}
				if i == 2 {
					runtime.Gosched()
				}
				closeErrs[i] = m.Close()
				s.op(1)
			})
		}
		g.Go("trigger", func() {
			if !eventually(allStarted, nil) {
				return
			}
			if variant%3 == 0 {
				cancelRun()
			}
			close(trigger)
		})
		if !g.Wait() {
			cancelRun()
			g.flush(s, round)
			s.hang(fmt.Sprintf("Run/Close/AddCloser returning (%d of %d runners started, %d returned; every runner ends when cancelled, every closer returns)", started.Load(), R, returned.Load()), round)
			break
		}
		cancelRun()
		if !allStarted() {
			g.fail("RunnerManager/runner-not-started", "Run returned and only %d of %d runners were ever started", started.Load(), R)
		}
		// the joined error: exactly errR1, r2err (if any), errC0, errC1
		for _, want := range []error{errR1, errC0, errC1} {
			if !errors.Is(runErr, want) {
				g.fail("RunnerCloserManager/joined-error-misses-an-error", "Run returned %q, which does not contain %q", fmt.Sprint(runErr), want)
			}
		}
		if (r2err != nil) != errors.Is(runErr, errR2) {
			g.fail("RunnerCloserManager/joined-error-misses-an-error", "Run returned %q; runner 2 returned %v", fmt.Sprint(runErr), r2err)
		}
		if errors.Is(runErr, context.Canceled) {
			g.fail("RunnerCloserManager/joined-error-contains-canceled", "Run returned %q", fmt.Sprint(runErr))
		}
		for i, ce := range closeErrs {
			if ce != runErr {
				g.fail("RunnerCloserManager/close-returned-another-error-than-run", "Close call %d returned %q, Run returned %q", i, fmt.Sprint(ce), fmt.Sprint(runErr))
			}
		}
		for i := 0; i < 4; i++ {
			if n := calls[i].Load(); n != 1 {
				g.fail("RunnerCloserManager/closer-not-invoked-exactly-once", "closer %d (registered before Run) invoked %d times", i, n)
			}
		}
		for i, aerr := range added {
			n := calls[4+i].Load()
			switch {
			case aerr == nil && n != 1:
				g.fail("RunnerCloserManager/closer-not-invoked-exactly-once", "AddCloser during the run returned nil and the closer was invoked %d times", n)
			case aerr != nil && !errors.Is(aerr, concurrency.ErrManagerAlreadyClosed):
				g.fail("RunnerCloserManager/valid-closer-refused", "AddCloser during the run: %v", aerr)
			case aerr != nil && n != 0:
				g.fail("RunnerCloserManager/refused-closer-invoked", "AddCloser reported %v and the closer was invoked %d times", aerr, n)
			}
			if aerr == nil {
				s.tally("closers_accepted_during_the_run", 1)
			} else {
				s.tally("closers_refused_during_the_run", 1)
			}
		}
		if n := fatal.Load(); n != 0 {
			g.fail("RunnerCloserManager/fatal-action-fired-within-grace", "the fatal-shutdown action fired %d times with a grace period of %v", n, grace)
		}
		if err := m.Run(context.Background()); !errors.Is(err, concurrency.ErrManagerAlreadyStarted) {
			g.fail("RunnerCloserManager/second-run-accepted", "a second Run returned %v", err)
		}
		if err := m.Add(func(context.Context) error { return nil }); !errors.Is(err, concurrency.ErrManagerAlreadyStarted) {
			g.fail("RunnerCloserManager/addition-after-run-accepted", "Add after Run returned %v", err)
		}
		if err := m.AddCloser(func() {}); !errors.Is(err, concurrency.ErrManagerAlreadyClosed) {
			g.fail("RunnerCloserManager/addition-after-run-accepted", "AddCloser after the manager closed returned %v", err)
		}
		s.op(3)

		// ---- plain RunnerManager: two Run calls at once ----
		var rStarted, rReturned atomic.Int32
		errA := errors.New("runner a failed")
		rm := concurrency.NewRunnerManager(
			func(ctx context.Context) error { rStarted.Add(1); <-ctx.Done(); rReturned.Add(1); return nil },
			func(ctx context.Context) error { rStarted.Add(1); <-ctx.Done(); rReturned.Add(1); return errA },
		)
		if err := rm.Add(func(ctx context.Context) error {
			rStarted.Add(1)
			for i := 0; i < variant%5; i++ {
				runtime.Gosched()
			}
			rReturned.Add(1)
			return context.Canceled
		}); err != nil {
			g.fail("RunnerManager/addition-before-run-refused", "Add before Run: %v", err)
		}
		var rerrs [2]error
		var rg group
		for i := 0; i < 2; i++ {
			i := i
			rg.Go("runner-manager-run", func() { rerrs[i] = rm.Run(context.Background()); s.op(1) })
		}
		if !rg.Wait() {
			s.hang("RunnerManager.Run returning (one runner returns by itself, the others end when cancelled)", round)
			break
		}
		rg.flush(s, round)
		refused := 0
		for _, e := range rerrs {
			if errors.Is(e, concurrency.ErrManagerAlreadyStarted) {
				refused++
			} else if !errors.Is(e, errA) || errors.Is(e, context.Canceled) {
				g.fail("RunnerManager/joined-error-wrong", "Run returned %q; expected exactly %q", fmt.Sprint(e), errA)
			}
		}
		if refused != 1 || rStarted.Load() != 3 || rReturned.Load() != 3 {
			g.fail("RunnerManager/ran-more-or-less-than-once", "two concurrent Run calls: %d refused, %d runner starts, %d returns (3 runners)", refused, rStarted.Load(), rReturned.Load())
		}
		if err := rm.Add(func(context.Context) error { return nil }); !errors.Is(err, concurrency.ErrManagerAlreadyStarted) {
			g.fail("RunnerManager/addition-after-run-accepted", "Add after Run returned %v", err)
		}
		s.op(3)

		// ---- runners supplied by several goroutines calling Add at the same
		// time before Run (plain manager on even rounds, closer manager on odd
		// ones): every runner whose Add returned nil is started exactly once ----
		const adders, perAdd = 4, 2
		var am interface {
			Add(...concurrency.Runner) error
			Run(context.Context) error
		} = concurrency.NewRunnerManager()
		if variant%2 == 1 {
			am = concurrency.NewRunnerCloserManager(log, nil)
		}
		var aStarts [adders * perAdd]atomic.Int32
		var addErrs [adders]error
		var ag group
		gate := make(chan struct{})
		for a := 0; a < adders; a++ {
			a := a
			ag.Go("concurrent-add", func() {
				rs := make([]concurrency.Runner, 0, perAdd)
				for k := 0; k < perAdd-(a+variant)%2; k++ { // one or two runners per call
					idx := a*perAdd + k
					rs = append(rs, func(ctx context.Context) error {
						aStarts[idx].Add(1)
						if idx == 0 {
							return nil // ends the run
						}
						<-ctx.Done()
						return nil
					})
				}
				<-gate
				addErrs[a] = am.Add(rs...)
				s.op(1)
			})
		}
		close(gate)
		if !ag.Wait() {
			s.hang("concurrent RunnerManager.Add calls returning", round)
			break
		}
		ag.flush(s, round)
		arunCtx, acancel := context.WithCancel(context.Background())
		var arg group
		arg.Go("run-after-concurrent-adds", func() {
			if err := am.Run(arunCtx); err != nil {
				g.fail("RunnerManager/joined-error-wrong", "Run after concurrent Adds returned %v; every runner returns nil", err)
			}
			s.op(1)
		})
		if !arg.Wait() {
			acancel()
			s.hang("Run after concurrent Adds returning (runner 0 returns at once, the others end when cancelled)", round)
			break
		}
		acancel()
		arg.flush(s, round)
		for a := 0; a < adders; a++ {
			n := perAdd - (a+variant)%2
			for k := 0; k < perAdd; k++ {
				st := aStarts[a*perAdd+k].Load()
				switch {
				case addErrs[a] != nil:
					g.fail("RunnerManager/addition-before-run-refused", "concurrent Add before Run: %v", addErrs[a])
				case k < n && st != 1:
					g.fail("RunnerManager/runner-not-started", "a runner whose Add (one of %d concurrent calls before Run) returned nil was started %d times", adders, st)
				case k >= n && st != 0:
					g.fail("RunnerManager/ran-more-or-less-than-once", "a runner that was never added was started %d times", st)
				}
			}
		}
		s.op(1)
		g.flush(s, round)
		done++
	}
	return map[string]any{"rounds": done, "goroutines_per_round": 22}
}
