package racesample

import (
	"context"
	"fmt"
	"runtime"
	"sync/atomic"
	"time"

	"github.com/dapr/kit/events/ratelimiting"
)

// C09: the coalescing rate limiter on a fake clock (WithTicker needs build tag
// "unit").

func init() {
	register(&workload{
		name: "c09", property: "C09",
		rule: "per round ONE coalescing limiter (initial delay 1 s, maximum 4 s, pending-events cap unset / 1 / 3 by round) on a fake clock stepped in 500 ms steps by its own goroutine: Run in one goroutine, a consumer that reads every signal, 3 goroutines x 20 Add; afterwards one more Add that must be followed by a signal; the round ends with Close (from two goroutines every third round, overlapping further Adds every other round) or with the end of Run's context followed by Close. Checked: the first Add of the round and the final Add are each followed by a signal, signals never exceed Adds, Run returns nil after Close or cancellation, Close returns, a second Run is refused, everything returns.",
		run:  runC09,
	})
}

func runC09(s *sess) map[string]any {
	const A, N = 3, 20
	rounds := s.rounds(2500)
	done := 0
	t0 := time.Date(2024, 1, 1, 0, 0, 0, 0, time.UTC)
	for round := 0; round < rounds && s.more(); round++ {
		var g group
		variant := round + s.seed
		opts := ratelimiting.OptionsCoalescing{InitialDelay: ptr(time.Second), MaxDelay: ptr(4 * time.Second)}
		switch variant % 3 {
		case 1:
			opts.MaxPendingEvents = ptr(1)
		case 2:
			opts.MaxPendingEvents = ptr(3)
		}
		rl, err := ratelimiting.NewCoalescing(opts)
		if err != nil {
			s.bad("coalescing/constructor-refused-valid-options", err.Error(), round)
			break
		}
		clk := newNBClock(t0) // (its timers fire at once when already due: no nudging needed)
		rl.(ratelimiting.RateLimiterWithTicker).WithTicker(clk)

		ctx, cancel := context.WithCancel(context.Background())
		ch := make(chan struct{})
		var signals, adds atomic.Int64
		runDone := make(chan error, 1)
		g.Go("run", func() { runDone <- rl.Run(ctx, ch) })
		stopConsumer := make(chan struct{})
		var cons group
		cons.Go("consumer", func() {
			for {
				select {
				case <-ch:
					signals.Add(1)
				case <-stopConsumer:
					return
				}
			}
		})
		stopStepper := make(chan struct{})
		stepperDone := make(chan struct{})
		go func() {
			defer close(stepperDone)
			for {
				select {
				case <-stopStepper:
					return
				default:
				}
				clk.Step(500 * time.Millisecond)
				runtime.Gosched()
			}
		}()
		finish := func() { close(stopStepper); <-stepperDone; close(stopConsumer); cancel() }

		var ag group
		for w := 0; w < A; w++ {
			w := w
			ag.Go(fmt.Sprint("adder-", w), func() {
				for i := 0; i < N; i++ {
					adds.Add(1)
					rl.Add()
					s.op(1)
					if (i+w+variant)%3 == 0 {
						runtime.Gosched()
					}
				}
			})
		}
		if !ag.Wait() {
			finish()
			s.hang("Add returning", round)
			break
		}
		ag.flush(s, round)
		if !eventually(func() bool { return signals.Load() >= 1 }, nil) {
			finish()
			s.bad("coalescing/add-never-followed-by-a-signal", fmt.Sprintf("%d Adds on a running limiter, the clock is %s past the start and still advancing, the consumer reads, and no signal arrived within %s", adds.Load(), clk.Now().Sub(t0), hangTimeout), round)
			s.stopped.Store(true)
			break
		}
		// one more Add: it must be followed by a signal of its own
		before := signals.Load()
		adds.Add(1)
		rl.Add()
		s.op(1)
		if !eventually(func() bool { return signals.Load() > before }, nil) {
			finish()
			s.bad("coalescing/add-never-followed-by-a-signal", fmt.Sprintf("an Add made after %d signals was not followed by another signal within %s although the clock keeps advancing (now %s past the start) and the consumer reads", before, hangTimeout, clk.Now().Sub(t0)), round)
			s.stopped.Store(true)
			break
		}

		// the end: Close, or cancellation then Close
		var eg group
		byCancel := variant%4 == 3
		if byCancel {
			cancel()
		}
		closers := 1
		if variant%3 == 0 {
			closers = 2
		}
		for c := 0; c < closers; c++ {
			eg.Go("closer", func() { rl.Close(); s.op(1) })
		}
		if variant%2 == 0 {
			eg.Go("late-adder", func() {
				for i := 0; i < 5; i++ {
					adds.Add(1)
					rl.Add() // a no-op once closed
					s.op(1)
				}
			})
		}
		if !eg.Wait() {
			finish()
			s.hang("Close returning (Run is live or has ended, the consumer reads)", round)
			break
		}
		eg.flush(s, round)
		select {
		case err := <-runDone:
			if err != nil {
				g.fail("coalescing/run-returned-an-error", "Run returned %v after Close/cancellation", err)
			}
		case <-time.After(hangTimeout):
			finish()
			s.hang("Run returning after Close returned", round)
		}
		if !s.more() {
			break
		}
		finish()
		if !cons.Wait() || !g.Wait() {
			s.hang("test goroutines stopping", round)
			break
		}
		if err := rl.Run(context.Background(), ch); err == nil {
			g.fail("coalescing/second-run-accepted", "a second Run on the same limiter returned nil")
		}
		rl.Close()
		s.op(2)
		if sg, ad := signals.Load(), adds.Load(); sg > ad {
			g.fail("coalescing/more-signals-than-adds", "%d signals for %d Adds", sg, ad)
		}
		g.flush(s, round)
		done++
	}
	return map[string]any{"rounds": done, "goroutines_per_round": A + 5, "adds_per_round": A*N + 1}
}

func ptr[T any](v T) *T { return &v }
