package racesample

import (
	"fmt"
	"sync/atomic"

	"github.com/dapr/kit/concurrency/cmap"
	"github.com/dapr/kit/concurrency/slice"
)

// C14: cmap.Map, cmap.Atomic and slice.Slice under concurrent use.

// mval is a multi-word value: a torn update shows up as an inconsistent struct.
type mval struct {
	key string
	seq int
	pad [24]int
}

func mkval(key string, seq int) mval {
	v := mval{key: key, seq: seq}
	for i := range v.pad {
		v.pad[i] = seq
	}
	return v
}

func (v mval) ok(key string) bool {
	if v.key != key {
		return false
	}
	for _, p := range v.pad {
		if p != v.seq {
			return false
		}
	}
	return true
}

func init() {
	register(&workload{
		name: "c14", property: "C14",
		rule: "per round 6 goroutines x 200 operations on ONE cmap.Map (Store/Load/Delete/LoadAndDelete/Range/Len/Keys/Clear over 4 shared keys plus a token key per goroutine), 6 x 200 on ONE cmap.Atomic (GetOrCreate+Add on 3 counted keys that are never deleted, Get/Load/Store/Delete/ForEach/Clear-free churn on volatile keys) and 6 x 150 on ONE slice.Slice (Append of 1-3 items, Len, Slice). Checked: every value read was written for that key and is internally consistent, a token stored once is taken by at most one LoadAndDelete, Len never exceeds the key universe, counted keys end at exactly the number of Adds, Append's return value grows per caller, every snapshot holds only appended items in per-caller order and the final slice holds every item exactly once.",
		run:  runC14,
	})
}

func runC14(s *sess) map[string]any {
	const G, N, NS = 6, 200, 150
	rounds := s.rounds(600)
	done := 0
	for round := 0; round < rounds && s.more(); round++ {
		var g group
		variant := round + s.seed

		// ---- cmap.Map ----
		m := cmap.NewMap[string, mval]()
		shared := []string{"a", "b", "c", "d"}
		universe := len(shared) + G
		taken := make([]atomic.Int32, G*N) // token id -> times a LoadAndDelete returned it
		for w := 0; w < G; w++ {
			w := w
			g.Go(fmt.Sprint("map-", w), func() {
				tokKey := fmt.Sprint("tok-", w)
				for i := 0; i < N; i++ {
					k := shared[(w+i+variant)%len(shared)]
					switch (w*7 + i + variant) % 10 {
					case 0, 1, 2:
						m.Store(k, mkval(k, w*N+i))
					case 3, 4:
						if v, ok := m.Load(k); ok && !v.ok(k) {
							g.fail("cmap.Map/load-returned-a-value-nobody-stored", "Load(%q) returned key %q seq %d pad[0] %d pad[23] %d", k, v.key, v.seq, v.pad[0], v.pad[23])
							return
						}
					case 5:
						m.Delete(k)
					case 6:
						// a token stored by its owner, taken by the owner or a neighbour
						m.Store(tokKey, mkval(tokKey, w*N+i))
						for _, tk := range []string{tokKey, fmt.Sprint("tok-", (w+1)%G)} {
							if v, ok := m.LoadAndDelete(tk); ok {
								if !v.ok(tk) {
									g.fail("cmap.Map/load-returned-a-value-nobody-stored", "LoadAndDelete(%q) returned key %q seq %d", tk, v.key, v.seq)
									return
								}
								if n := taken[v.seq].Add(1); n > 1 {
									g.fail("cmap.Map/one-stored-value-taken-twice", "token %d stored once under %q was returned by %d LoadAndDelete calls", v.seq, tk, n)
									return
								}
							}
						}
						s.op(2)
					case 7:
						n := 0
						m.Range(func(k string, v mval) bool {
							n++
							if !v.ok(k) {
								g.fail("cmap.Map/load-returned-a-value-nobody-stored", "Range gave key %q with value key %q seq %d", k, v.key, v.seq)
								return false
							}
							return true
						})
						if n > universe {
							g.fail("cmap.Map/more-entries-than-keys", "Range visited %d entries, only %d keys are ever used", n, universe)
						}
					case 8:
						if l := m.Len(); l < 0 || l > universe {
							g.fail("cmap.Map/more-entries-than-keys", "Len() = %d, only %d keys are ever used", l, universe)
						}
						if ks := m.Keys(); len(ks) > universe {
							g.fail("cmap.Map/more-entries-than-keys", "Keys() has %d entries, only %d keys are ever used", len(ks), universe)
						}
						s.op(1)
					case 9:
						if i%50 == 9 {
							m.Clear()
						} else {
							m.Store(k, mkval(k, w*N+i))
						}
					}
					s.op(1)
				}
			})
		}

		// ---- cmap.Atomic ----
		a := cmap.NewAtomic[string, int64]()
		counted := []string{"x", "y", "z"}
		var adds [3]atomic.Int64
		for w := 0; w < G; w++ {
			w := w
			g.Go(fmt.Sprint("atomic-", w), func() {
				for i := 0; i < N; i++ {
					ci := (w + i + variant) % len(counted)
					switch (w*3 + i + variant) % 8 {
					case 0, 1, 2, 3:
						a.GetOrCreate(counted[ci], 0).Add(1)
						adds[ci].Add(1)
					case 4:
						if v, ok := a.Get(counted[ci]); ok {
							if n := v.Load(); n < 0 || n > int64(G*N) {
								g.fail("cmap.Atomic/impossible-counter-value", "counter %q reads %d with at most %d Adds of 1", counted[ci], n, G*N)
							}
						}
					case 5:
						vk := fmt.Sprint("vol-", w)
						v := a.GetOrCreate(vk, 7)
						if n := v.Load(); n != 7 && n != 9 {
							g.fail("cmap.Atomic/impossible-counter-value", "private key %q created with 7 and only ever stored 9 reads %d", vk, n)
						}
						v.Store(9)
						a.Delete(vk)
						s.op(3)
					case 6:
						a.ForEach(func(k string, v *cmap.AtomicValue[int64]) {
							if n := v.Load(); n < 0 || n > int64(G*N) {
								g.fail("cmap.Atomic/impossible-counter-value", "ForEach: key %q reads %d", k, n)
							}
						})
					case 7:
						a.GetOrCreate(counted[ci], 0).Add(1)
						adds[ci].Add(1)
					}
					s.op(1)
				}
			})
		}

		// ---- slice.Slice ----
		sl := slice.New[[2]int]() // item = {writer, sequence number of that writer}
		var appended atomic.Int64
		checkSnap := func(snap [][2]int, what string) bool {
			var last [G]int
			for i := range last {
				last[i] = -1
			}
			for _, it := range snap {
				if it[0] < 0 || it[0] >= G || it[1] != last[it[0]]+1 {
					g.fail("slice/snapshot-is-not-the-appended-items-in-order", "%s: item %v after sequence number %d of that writer", what, it, last[max(0, min(G-1, it[0]))])
					return false
				}
				last[it[0]] = it[1]
			}
			return true
		}
		for w := 0; w < G; w++ {
			w := w
			g.Go(fmt.Sprint("slice-", w), func() {
				seq, prevLen := 0, 0
				for i := 0; i < NS; i++ {
					switch (w + i + variant) % 4 {
					case 0, 1:
						k := 1 + (i+w)%3
						items := make([][2]int, k)
						for j := range items {
							items[j] = [2]int{w, seq}
							seq++
						}
						l := sl.Append(items...)
						appended.Add(int64(k))
						if l < prevLen+k {
							g.fail("slice/append-length-went-back", "Append of %d items returned length %d after this caller saw %d", k, l, prevLen)
							return
						}
						prevLen = l
					case 2:
						if l := sl.Len(); l < prevLen {
							g.fail("slice/append-length-went-back", "Len() = %d after this caller saw %d", l, prevLen)
							return
						} else {
							prevLen = l
						}
					case 3:
						snap := sl.Slice()
						if len(snap) < prevLen || !checkSnap(snap, "Slice() during the run") {
							if len(snap) < prevLen {
								g.fail("slice/append-length-went-back", "Slice() has %d items after this caller saw %d", len(snap), prevLen)
							}
							return
						}
						prevLen = len(snap)
					}
					s.op(1)
				}
			})
		}

		if !g.Wait() {
			s.hang("a container operation returning", round)
			break
		}
		for i, k := range counted {
			v, ok := a.Get(k)
			if want := adds[i].Load(); want > 0 && (!ok || v.Load() != want) {
				got := int64(-1)
				if ok {
					got = v.Load()
				}
				g.fail("cmap.Atomic/lost-update", "key %q: %d Adds of 1 on a key that is never deleted, counter reads %d (present=%v)", k, want, got, ok)
			}
		}
		final := sl.Slice()
		if int64(len(final)) != appended.Load() || sl.Len() != len(final) {
			g.fail("slice/lost-append", "%d items appended, final Slice() has %d, Len() %d", appended.Load(), len(final), sl.Len())
		}
		checkSnap(final, "final Slice()")
		g.flush(s, round)
		done++
	}
	return map[string]any{"rounds": done, "goroutines_per_round": 3 * G, "operations_per_goroutine": map[string]int{"map": N, "atomic": N, "slice": NS}}
}
