// Package racesample holds the SUPPLEMENTARY race-sampling parts of the
// schedule-quantified properties (C05 C06 C09 C10 C11 C12 C13 C14 C19 C20).
//
// The deciding parts of those properties are explored by the model runtime,
// which assumes sequential consistency and treats the code between two
// synchronisation operations as atomic: plain data races (torn reads/writes,
// unsynchronised shared state) are invisible to it. Each workload here hammers
// ONE object of the real package, through its public API only, from several
// goroutines on the REAL Go runtime in a -race build, with cheap functional
// sanity checks. The race detector's own reports are picked up by the driver
// (finding key "data-race"; a crash becomes "crash-in-parallel-run").
//
// It samples schedules. It is evidence next to the explorer, never the
// deciding step.
//
// Build: needs -tags unit (ratelimiting.RateLimiterWithTicker and
// RunnerCloserManager.WithFatalShutdown live behind that tag); the driver
// always sets it. One workload per invocation: -workload c05|c06|...|c20.
package racesample

import (
	clocktesting "k8s.io/utils/clock/testing"

	"encoding/json"
	"flag"
	"fmt"
	"os"
	"runtime"
	"sort"
	"strconv"
	"strings"
	"sync"
	"sync/atomic"
	"testing"
	"time"

	"verif/enumx"
)

var flagWorkload = flag.String("workload", "", "which workload to run (c05 c06 c09 c10 c11 c12 c13 c14 c19 c20, or an opt-in sub-workload such as c12-addcloser-at-start)")

// hangTimeout turns "never returns" into a finding. It is the only use of the
// wall clock in an oracle and is generous on purpose.
const hangTimeout = 20 * time.Second

// expired waits out hangTimeout (measured from start); on a machine whose
// one-minute load average exceeds its CPU count — where a runnable goroutine may
// simply not have been given a processor — it grants up to a minute more.
// It reports true once the (extended) time is over; callers poll it.
func expired(start time.Time) bool {
	el := time.Since(start)
	if el < hangTimeout {
		return false
	}
	if el < hangTimeout+60*time.Second && overloaded() {
		return false
	}
	return true
}

func overloaded() bool {
	b, err := os.ReadFile("/proc/loadavg")
	if err != nil {
		return false
	}
	var l1 float64
	fmt.Sscanf(string(b), "%f", &l1)
	return l1 > float64(runtime.NumCPU())
}

// waitOr waits for ch; false = the hang timeout (extended under overload) passed first.
func waitOr[T any](ch <-chan T) (T, bool) {
	start := time.Now()
	tick := time.NewTicker(250 * time.Millisecond)
	defer tick.Stop()
	for {
		select {
		case v := <-ch:
			return v, true
		case <-tick.C:
			if expired(start) {
				var z T
				return z, false
			}
		}
	}
}

type workload struct {
	name     string
	property string
	rule     string
	// run executes the workload; it returns a description of one round for
	// the evidence sample.
	run func(s *sess) map[string]any
}

var workloads = map[string]*workload{}

func register(w *workload) { workloads[w.name] = w }

// sess is what a workload sees.
type sess struct {
	r       *enumx.Run
	w       *workload
	seed    int
	ops     atomic.Int64
	stopped atomic.Bool
	tmu     sync.Mutex
	tallies map[string]int64
}

// tally accumulates a named count that ends up in the evidence sample (what
// the sanity checks actually got to see).
func (s *sess) tally(name string, n int64) {
	s.tmu.Lock()
	if s.tallies == nil {
		s.tallies = map[string]int64{}
	}
	s.tallies[name] += n
	s.tmu.Unlock()
}

// rounds scales a quick-tier round count to the tier.
func (s *sess) rounds(quick int) int {
	if s.r.Thorough() {
		return quick * 10
	}
	return quick
}

// more reports whether another round should be started.
func (s *sess) more() bool { return !s.stopped.Load() && !s.r.Expired() }

// op counts n executed operations of the API under test.
func (s *sess) op(n int) { s.ops.Add(int64(n)) }

// bad reports a sanity-check failure.
func (s *sess) bad(key, msg string, round int) {
	s.r.Violation(key, msg, map[string]any{"workload": s.w.name, "round": round, "seed": s.seed, "tier": s.r.Tier})
}

// hang reports that something did not return within hangTimeout; the workload
// stops afterwards (goroutines of that round may be stuck for good).
func (s *sess) hang(what string, round int) {
	s.stopped.Store(true)
	s.bad("hang/"+what, fmt.Sprintf("%s: %s did not happen within %s on the real runtime (treated as never)", s.w.name, what, hangTimeout), round)
}

// group runs goroutines with recover() and collects what they report.
type group struct {
	wg   sync.WaitGroup
	mu   sync.Mutex
	errs []gerr
}

type gerr struct{ key, msg string }

func (g *group) fail(key, format string, a ...any) {
	g.mu.Lock()
	if len(g.errs) < 50 {
		g.errs = append(g.errs, gerr{key, fmt.Sprintf(format, a...)})
	}
	g.mu.Unlock()
}

// Go starts fn; a panic inside becomes a finding instead of killing the part.
func (g *group) Go(name string, fn func()) {
	g.wg.Add(1)
	go func() {
		defer g.wg.Done()
		defer func() {
			if p := recover(); p != nil {
				g.fail("panic/"+name, "goroutine %q panicked: %v", name, p)
			}
		}()
		fn()
	}()
}

// Wait joins the goroutines; false = some goroutine never returned.
func (g *group) Wait() bool {
	done := make(chan struct{})
	go func() { g.wg.Wait(); close(done) }()
	_, ok := waitOr(done)
	return ok
}

// flush turns what the group collected into findings.
func (g *group) flush(s *sess, round int) {
	g.mu.Lock()
	errs := g.errs
	g.errs = nil
	g.mu.Unlock()
	for _, e := range errs {
		s.bad(e.key, e.msg, round)
	}
}

// returns runs fn and reports whether it came back within hangTimeout.
func returns(fn func()) (ok bool, panicked any) {
	done := make(chan any, 1)
	go func() {
		defer func() { done <- recover() }()
		fn()
	}()
	p, ok := waitOr(done)
	return ok, p
}

// eventually polls cond (yielding in between) until it holds or hangTimeout
// passes. step, when non-nil, is called between polls (e.g. to step a clock).
// nudge makes the k8s fake clock deliver what the real runtime delivers at
// once: a fake timer created with a non-positive duration only fires at the
// next Step, whereas a real one fires immediately. A background Step(0) every
// 200 us closes that gap, so that code which (legitimately) arms an already-due
// timer is not reported as hanging. The returned function stops the nudger.
func nudge(clk *clocktesting.FakeClock) (stop func()) {
	done := make(chan struct{})
	fin := make(chan struct{})
	go func() {
		defer close(fin)
		for {
			select {
			case <-done:
				return
			default:
			}
			clk.Step(0)
			time.Sleep(200 * time.Microsecond)
		}
	}()
	return func() { close(done); <-fin }
}

// nudger is nudge for workloads that make a fresh clock per round: watch(clk)
// switches the background Step(0) to the round's clock.
func nudger() (watch func(*clocktesting.FakeClock), stop func()) {
	var cur atomic.Pointer[clocktesting.FakeClock]
	done := make(chan struct{})
	fin := make(chan struct{})
	go func() {
		defer close(fin)
		for {
			select {
			case <-done:
				return
			default:
			}
			if c := cur.Load(); c != nil {
				c.Step(0)
			}
			time.Sleep(200 * time.Microsecond)
		}
	}()
	return func(c *clocktesting.FakeClock) { cur.Store(c) }, func() { close(done); <-fin }
}

func eventually(cond func() bool, step func()) bool {
	start := time.Now()
	for i := 0; ; i++ {
		if cond() {
			return true
		}
		if i%256 == 255 && expired(start) {
			return false
		}
		if step != nil {
			step()
		}
		if i%64 == 63 {
			time.Sleep(50 * time.Microsecond)
		} else {
			runtime.Gosched()
		}
	}
}

func seed() int {
	n, _ := strconv.Atoi(os.Getenv("VERIF_SEED"))
	return n
}

func names() string {
	var ns []string
	for n := range workloads {
		ns = append(ns, n)
	}
	sort.Strings(ns)
	return strings.Join(ns, " ")
}

func TestCheck(t *testing.T) {
	name := *flagWorkload
	// A replay file names its workload (the driver's --replay does not pass
	// the part's args).
	if f := flag.Lookup("replay"); f != nil && f.Value.String() != "" {
		if b, err := os.ReadFile(f.Value.String()); err == nil {
			var rc struct {
				Property string `json:"property"`
				Case     struct {
					Workload string `json:"workload"`
				} `json:"case"`
			}
			if json.Unmarshal(b, &rc) == nil {
				switch {
				case rc.Case.Workload != "":
					name = rc.Case.Workload
				case name == "" && rc.Property != "":
					// the driver's own artefacts (data-race, crash-in-parallel-run)
					// carry the race report and the property only
					name = strings.ToLower(rc.Property)
				}
			}
		}
	}
	w := workloads[name]
	if w == nil {
		t.Fatalf("racesample: -workload %q unknown; have: %s", name, names())
	}
	enumx.Main(t, w.property, "race-sampling", func(r *enumx.Run, replay *enumx.ReplayCase) {
		// A sampled schedule cannot be replayed exactly: a replay re-runs the
		// whole workload and reports whatever fails again.
		r.Rule("SUPPLEMENTARY, sampling: " + w.rule + " Runs on the real Go runtime in a -race build, public API only; the race detector must stay quiet and the sanity checks must hold. Not exhaustive and not the deciding step for " + w.property + ".")
		r.Assume("the Go race detector reports only races that actually occur in the sampled schedules")
		s := &sess{r: r, w: w, seed: seed()}
		start := time.Now()
		sample := w.run(s)
		if sample == nil {
			sample = map[string]any{}
		}
		sample["workload"] = w.name
		sample["seed"] = s.seed
		sample["operations"] = s.ops.Load()
		s.tmu.Lock()
		for k, v := range s.tallies {
			sample[k] = v
		}
		s.tmu.Unlock()
		sample["wall_s"] = time.Since(start).Seconds()
		r.Sample(sample)
		r.Count(s.ops.Load(), s.ops.Load())
		r.Incomplete("sampling of schedules on the real runtime is never exhaustive (supplementary evidence)")
	})
}
