package racesample

import (
	"fmt"
	"runtime"
	"sort"
	"sync/atomic"
	"time"

	"github.com/dapr/kit/cron"
)

// C05: the cron scheduler on a fake clock.
//
// cron documents that its methods are synchronised "as long as the caller
// ensures that invocations have a clear happens-before ordering between them":
// ONE client goroutine issues Schedule/AddFunc/Remove/Entries/Entry/Start/Stop
// and steps the clock; the concurrency is the scheduler goroutine and the job
// goroutines it starts.
//
// Kept out on purpose: restart (Stop then Start) — known finding, WaitGroup
// reuse panic. Every round uses a fresh Cron.
//
// Two kinds of rounds. Lock-step rounds use Entries() as the rendezvous with
// the scheduler (its reply is sent from the scheduler's select loop, i.e. after
// the timer for the next activation was armed), so the set of job starts is
// exactly predictable from the snapshots. Free rounds fire the same calls
// without waiting and check only bounds.

type cronJob struct {
	id      cron.EntryID
	starts  atomic.Int64
	blocks  bool
	release chan struct{}
	inside  *atomic.Int64
	removed bool
	expect  int64 // lock-step rounds: starts predicted from the snapshots
}

func (j *cronJob) Run() {
	j.starts.Add(1)
	if j.blocks {
		j.inside.Add(1)
		<-j.release
		j.inside.Add(-1)
	}
}

func init() {
	register(&workload{
		name: "c05", property: "C05",
		rule: "per round ONE fresh Cron (seconds parser, UTC, fake clock) driven by one client goroutine against the scheduler goroutine and the job goroutines: two entries scheduled before Start (Every 1 s, \"*/2 * * * * *\"), Start, then 8 beats of {Entries, by round: Schedule a blocking Every-1-s job / AddFunc \"*/3 * * * * *\" / Remove an entry / Entry(id), clock step of 1 s or 2.5 s}, Stop, release of the blocking jobs, wait for Stop's context, further clock steps. Even rounds keep lock-step with the scheduler through Entries(), odd rounds run free. Checked: Entries lists exactly the live entries, a removed entry is gone once Remove returned, lock-step: every entry is started exactly once per wake-up that reached its Next and Prev/Next move accordingly; free: an entry is never started more often than the clock was stepped; Stop's context is not done while a started job is still blocked and is done once all returned; nothing is started after Stop returned; everything returns.",
		run:  runC05,
	})
}

func runC05(s *sess) map[string]any {
	rounds := s.rounds(4000)
	done := 0
	t0 := time.Date(2024, 1, 1, 0, 0, 0, 0, time.UTC)
	for round := 0; round < rounds && s.more(); round++ {
		round := round
		var g group
		ok, p := returns(func() { cronRound(s, &g, round, t0) })
		g.flush(s, round)
		if p != nil {
			s.bad("panic/cron-client", fmt.Sprintf("a cron call panicked: %v", p), round)
		}
		if !ok {
			s.hang("a cron round finishing (Schedule/Remove/Entries/Stop returning, Stop's context ending after every job was released)", round)
			break
		}
		done++
	}
	return map[string]any{"rounds": done, "goroutines_per_round": "1 client + scheduler + up to 20 job goroutines", "beats_per_round": 8}
}

func cronRound(s *sess, g *group, round int, t0 time.Time) {
	variant := round + s.seed
	lockstep := variant%2 == 0
	clk := newNBClock(t0) // timers that never block the clock and fire at once when already due (nbclock_test.go)
	c := cron.New(cron.WithSeconds(), cron.WithLocation(time.UTC), cron.WithClock(clk), cron.WithLogger(cron.DiscardLogger))
	release := make(chan struct{})
	var inside atomic.Int64
	var jobs []*cronJob
	steps := int64(0)

	schedule := func(every time.Duration, blocks bool) *cronJob {
		j := &cronJob{blocks: blocks, release: release, inside: &inside}
		j.id = c.Schedule(cron.Every(every), j)
		jobs = append(jobs, j)
		s.op(1)
		return j
	}
	addFunc := func(spec string) *cronJob {
		j := &cronJob{}
		id, err := c.AddFunc(spec, j.Run)
		if err != nil {
			g.fail("cron/valid-spec-refused", "AddFunc(%q): %v", spec, err)
		}
		j.id = id
		jobs = append(jobs, j)
		s.op(1)
		return j
	}
	// entries checks Entries() against the live set and returns the snapshot.
	entries := func(when string) map[cron.EntryID]cron.Entry {
		es := c.Entries()
		s.op(1)
		got := map[cron.EntryID]cron.Entry{}
		var ids, want []int
		for _, e := range es {
			got[e.ID] = e
			ids = append(ids, int(e.ID))
		}
		for _, j := range jobs {
			if !j.removed {
				want = append(want, int(j.id))
			}
		}
		sort.Ints(ids)
		sort.Ints(want)
		if fmt.Sprint(ids) != fmt.Sprint(want) {
			g.fail("cron/entries-are-not-the-live-entries", "%s: Entries() lists ids %v, live entries are %v", when, ids, want)
		}
		return got
	}

	schedule(time.Second, false)
	addFunc("*/2 * * * * *")
	entries("before Start")
	c.Start()
	c.Start() // no-op when running
	s.op(2)

	for beat := 0; beat < 8; beat++ {
		switch (variant/2 + beat*3) % 7 {
		case 0:
			schedule(time.Second, true)
		case 1:
			addFunc("*/3 * * * * *")
		case 2, 3:
			// remove the oldest live entry but always keep one
			live := 0
			for _, j := range jobs {
				if !j.removed {
					live++
				}
			}
			if live > 1 {
				for _, j := range jobs {
					if !j.removed {
						c.Remove(j.id)
						j.removed = true
						s.op(1)
						if e := c.Entry(j.id); e.Valid() {
							g.fail("cron/removed-entry-still-listed", "Entry(%d) is valid after Remove(%d) returned", j.id, j.id)
						}
						s.op(1)
						break
					}
				}
			}
		case 4:
			j := jobs[len(jobs)-1]
			if e := c.Entry(j.id); e.Valid() == j.removed {
				g.fail("cron/entries-are-not-the-live-entries", "Entry(%d).Valid() = %v, removed = %v", j.id, e.Valid(), j.removed)
			}
			s.op(1)
		}
		d := time.Second
		if (variant+beat)%4 == 3 {
			d = 2500 * time.Millisecond
		}
		if !lockstep {
			clk.Step(d)
			steps++
			if beat%2 == 0 {
				runtime.Gosched()
			}
			continue
		}
		// lock-step: the snapshot is taken after the scheduler armed its timer
		snap := entries("during the run")
		now := clk.Now().Add(d)
		for _, j := range jobs {
			if e, ok := snap[j.id]; ok && !j.removed {
				if e.Next.IsZero() || !e.Next.After(clk.Now()) {
					g.fail("cron/next-activation-not-in-the-future", "entry %d: Next = %v at clock %v after the scheduler settled", j.id, e.Next.Sub(t0), clk.Now().Sub(t0))
				}
				if !e.Next.After(now) {
					j.expect++
				}
			}
		}
		clk.Step(d)
		steps++
		// the wake-up is served once every live entry's Next lies in the future
		var late cron.Entry
		if !eventually(func() bool {
			for _, e := range c.Entries() {
				if !e.Next.After(now) {
					late = e
					return false
				}
			}
			return true
		}, nil) {
			g.fail("cron/activation-never-served", "the clock reached %v, entry %d has Next = %v and the scheduler did not serve it within %s", now.Sub(t0), late.ID, late.Next.Sub(t0), hangTimeout)
			s.stopped.Store(true)
			break
		}
		after := entries("after a wake-up")
		for _, j := range jobs {
			b, ok1 := snap[j.id]
			a, ok2 := after[j.id]
			if !ok1 || !ok2 || j.removed {
				continue
			}
			if !b.Next.After(now) && !a.Prev.Equal(b.Next) {
				g.fail("cron/prev-is-not-the-activation-used", "entry %d was due at %v, the clock moved to %v, Entries reports Prev = %v", j.id, b.Next.Sub(t0), now.Sub(t0), a.Prev.Sub(t0))
			}
			if b.Next.After(now) && (!a.Next.Equal(b.Next) || !a.Prev.Equal(b.Prev)) {
				g.fail("cron/entry-moved-without-an-activation", "entry %d was not due (Next %v, clock %v) and changed to Prev %v Next %v", j.id, b.Next.Sub(t0), now.Sub(t0), a.Prev.Sub(t0), a.Next.Sub(t0))
			}
		}
	}

	// Stop; its context must wait for the blocked jobs
	ctx := c.Stop()
	s.op(1)
	if inside.Load() > 0 {
		select {
		case <-ctx.Done():
			g.fail("cron/stop-context-done-while-a-job-runs", "the context returned by Stop is done while %d started jobs have not returned", inside.Load())
		default:
		}
	}
	close(release)
	select {
	case <-ctx.Done():
	case <-time.After(hangTimeout):
		g.fail("hang/stop-context", "every job was released and the context returned by Stop is not done after %s", hangTimeout)
		s.stopped.Store(true)
		return
	}
	total := func() (n int64) {
		for _, j := range jobs {
			n += j.starts.Load()
		}
		return n
	}
	atStop := total()
	entries("after Stop")
	c.Stop() // no-op when stopped
	s.op(1)
	for i := 0; i < 3; i++ {
		clk.Step(time.Second)
		runtime.Gosched()
	}
	for _, j := range jobs {
		n := j.starts.Load()
		if lockstep && n != j.expect {
			g.fail("cron/starts-differ-from-activations-reached", "entry %d: %d wake-ups reached its Next (from the Entries snapshots), its job was started %d times", j.id, j.expect, n)
		}
		if n > steps {
			g.fail("cron/started-more-often-than-the-clock-moved", "entry %d was started %d times with %d clock steps (one wake-up per step at most)", j.id, n, steps)
		}
	}
	s.tally("job_starts", atStop)
	if lockstep {
		s.tally("job_starts_predicted_exactly", atStop)
	}
	if after := total(); after != atStop {
		g.fail("cron/job-started-after-stop-returned", "%d jobs started after Stop's context was done", after-atStop)
	}
}
