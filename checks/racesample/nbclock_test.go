package racesample

import (
	"sync"
	"time"

	"k8s.io/utils/clock"
	clocktesting "k8s.io/utils/clock/testing"
)

// nbClock is the k8s fake clock with timers that behave like the runtime's.
// The k8s fake timer sends its tick with a BLOCKING send while the clock's lock
// is held: a timer that fires a second time while its previous tick is still
// unread blocks Step — and with it everybody who uses the clock — for good. A
// real timer does a non-blocking send (the second tick is dropped). Code that
// re-arms an expired timer without draining it (correct since Go 1.23) would
// therefore hang on the fake clock and nowhere else; a workload must not
// report that. Timers of nbClock also fire at once when created or reset with
// a non-positive duration, as real ones do.
type nbClock struct {
	*clocktesting.FakeClock
	mu     sync.Mutex
	timers []*nbTimer
}

func newNBClock(t time.Time) *nbClock { return &nbClock{FakeClock: clocktesting.NewFakeClock(t)} }

type nbTimer struct {
	c     *nbClock
	ch    chan time.Time
	when  time.Time
	armed bool
}

func (c *nbClock) NewTimer(d time.Duration) clock.Timer {
	t := &nbTimer{c: c, ch: make(chan time.Time, 1)}
	c.mu.Lock()
	t.when, t.armed = c.FakeClock.Now().Add(d), true
	c.timers = append(c.timers, t)
	c.fireLocked()
	c.mu.Unlock()
	return t
}

func (c *nbClock) After(d time.Duration) <-chan time.Time { return c.NewTimer(d).C() }

func (c *nbClock) Step(d time.Duration) {
	c.FakeClock.Step(d)
	c.mu.Lock()
	c.fireLocked()
	c.mu.Unlock()
}

func (c *nbClock) fireLocked() {
	now := c.FakeClock.Now()
	keep := c.timers[:0]
	for _, t := range c.timers {
		if t.armed && !t.when.After(now) {
			t.armed = false
			select {
			case t.ch <- now:
			default: // the previous tick is still unread: dropped, as the runtime does
			}
		}
		if t.armed {
			keep = append(keep, t)
		}
	}
	for i := len(keep); i < len(c.timers); i++ {
		c.timers[i] = nil
	}
	c.timers = keep
}

func (t *nbTimer) C() <-chan time.Time { return t.ch }

func (t *nbTimer) Stop() bool {
	t.c.mu.Lock()
	was := t.armed
	t.armed = false
	t.c.mu.Unlock()
	return was
}

func (t *nbTimer) Reset(d time.Duration) bool {
	c := t.c
	c.mu.Lock()
	was := t.armed
	t.when, t.armed = c.FakeClock.Now().Add(d), true
	found := false
	for _, x := range c.timers {
		if x == t {
			found = true
		}
	}
	if !found {
		c.timers = append(c.timers, t)
	}
	c.fireLocked()
	c.mu.Unlock()
	return was
}
