package racesample

import (
	"context"
	"errors"
	"fmt"
	"runtime"
	"sync"
	"sync/atomic"
	"time"

	"github.com/dapr/kit/concurrency/cmap"
	"github.com/dapr/kit/concurrency/fifo"
	"github.com/dapr/kit/concurrency/lock"
)

// C13: the lock primitives. Every critical section updates a PLAIN variable
// (so a broken lock is also a race the detector sees) and an atomic holder
// count (so a broken lock gives a readable message).
//
// Kept out on purpose (known findings of C13): cmap.Mutex Delete /
// DeleteUnlock / DeleteRUnlock / Clear on a key another goroutine uses. The
// Delete* calls below only touch keys private to the calling goroutine.

// guarded is the state a lock protects.
type guarded struct {
	plain   int // only touched while holding the lock exclusively
	writers atomic.Int32
	readers atomic.Int32
}

func (c *guarded) write(g *group, what string) {
	if w := c.writers.Add(1); w != 1 {
		g.fail(what+"/two-exclusive-holders", "%s: %d exclusive holders at once", what, w)
	}
	if r := c.readers.Load(); r != 0 {
		g.fail(what+"/writer-beside-reader", "%s: exclusive holder admitted beside %d readers", what, r)
	}
	c.plain++
	runtime.Gosched()
	c.plain++
	c.writers.Add(-1)
}

func (c *guarded) read(g *group, what string) {
	c.readers.Add(1)
	if w := c.writers.Load(); w != 0 {
		g.fail(what+"/writer-beside-reader", "%s: reader admitted beside %d exclusive holders", what, w)
	}
	if c.plain%2 != 0 {
		g.fail(what+"/writer-beside-reader", "%s: reader saw a half-done update", what)
	}
	c.readers.Add(-1)
}

func init() {
	register(&workload{
		name: "c13", property: "C13",
		rule: "per round, each on ONE object: fifo.Mutex (6 goroutines x 60 Lock/Unlock), fifo.Map (6 x 60 over 3 keys), cmap.Mutex (6 x 80: Lock/Unlock and RLock/RUnlock on 2 shared keys, Lock+DeleteUnlock / RLock+DeleteRUnlock on a key private to the caller, ItemCount), lock.Context (6 x 60 Lock/Unlock and RLock/RUnlock with live, already-cancelled and cancelled-while-waiting contexts) and lock.OuterCancel (Run + 4 readers x 12 RLock that release at once or only when told to stop, 2 writers x 6 Lock, graceful timeout 1 ms, then shutdown). Checked: never two exclusive holders, never a writer beside a reader that was not told to stop, no reader admitted while a writer holds, an acquisition that reports an error holds nothing (the lock is free at the end), no lost critical section (the guarded counter equals the number of sections), per-key state of private keys is gone at the end, everything returns.",
		run:  runC13,
	})
}

func runC13(s *sess) map[string]any {
	const G = 6
	rounds := s.rounds(300)
	done := 0
	for round := 0; round < rounds && s.more(); round++ {
		var g group
		variant := round + s.seed

		// ---- fifo.Mutex ----
		fm := fifo.New()
		var fmState guarded
		var fmSections atomic.Int64
		for w := 0; w < G; w++ {
			g.Go("fifo.Mutex", func() {
				for i := 0; i < 60; i++ {
					fm.Lock()
					fmState.write(&g, "fifo.Mutex")
					fm.Unlock()
					fmSections.Add(1)
					s.op(2)
				}
			})
		}

		// ---- fifo.Map ----
		fmap := fifo.NewMap[string]()
		fkeys := []string{"a", "b", "c"}
		fmapState := make([]guarded, len(fkeys))
		fmapSections := make([]atomic.Int64, len(fkeys))
		for w := 0; w < G; w++ {
			w := w
			g.Go("fifo.Map", func() {
				for i := 0; i < 60; i++ {
					k := (w + i*(1+w%2) + variant) % len(fkeys)
					fmap.Lock(fkeys[k])
					fmapState[k].write(&g, "fifo.Map")
					fmap.Unlock(fkeys[k])
					fmapSections[k].Add(1)
					s.op(2)
				}
			})
		}

		// ---- cmap.Mutex ----
		cm := cmap.NewMutex[string]()
		ckeys := []string{"a", "b"}
		cmState := make([]guarded, len(ckeys))
		cmSections := make([]atomic.Int64, len(ckeys))
		for w := 0; w < G; w++ {
			w := w
			g.Go("cmap.Mutex", func() {
				var private guarded
				for i := 0; i < 80; i++ {
					k := (w + i + variant) % len(ckeys)
					switch (w*5 + i + variant) % 6 {
					case 0, 1:
						cm.Lock(ckeys[k])
						cmState[k].write(&g, "cmap.Mutex")
						cm.Unlock(ckeys[k])
						cmSections[k].Add(1)
					case 2, 3:
						cm.RLock(ckeys[k])
						cmState[k].read(&g, "cmap.Mutex")
						cm.RUnlock(ckeys[k])
					case 4:
						// a key nobody else ever uses: delete-and-release is a
						// correct call here
						pk := fmt.Sprint("private-", w)
						if i%2 == 0 {
							cm.Lock(pk)
							private.write(&g, "cmap.Mutex(private key)")
							cm.DeleteUnlock(pk)
						} else {
							cm.RLock(pk)
							private.read(&g, "cmap.Mutex(private key)")
							cm.DeleteRUnlock(pk)
						}
					case 5:
						if n := cm.ItemCount(); n < 0 || n > len(ckeys)+G {
							g.fail("cmap.Mutex/more-entries-than-keys", "ItemCount() = %d with %d keys ever used", n, len(ckeys)+G)
						}
					}
					s.op(2)
				}
			})
		}

		// ---- lock.Context ----
		lc := lock.NewContext()
		var lcState guarded
		var lcSections atomic.Int64
		for w := 0; w < G; w++ {
			w := w
			g.Go("lock.Context", func() {
				for i := 0; i < 60; i++ {
					ctx, cancel := context.WithCancel(context.Background())
					mode := (w*3 + i + variant) % 5
					switch mode {
					case 3:
						cancel() // already ended: may be refused, may be granted if the lock is free
					case 4:
						go func() { runtime.Gosched(); cancel() }() // ends while we wait (or after)
					}
					var err error
					if (w+i)%2 == 0 {
						if err = lc.Lock(ctx); err == nil {
							lcState.write(&g, "lock.Context")
							lcSections.Add(1)
							lc.Unlock()
						}
					} else {
						// the read side of lock.Context is exclusive too (one token)
						if err = lc.RLock(ctx); err == nil {
							lcState.write(&g, "lock.Context")
							lcSections.Add(1)
							lc.RUnlock()
						}
					}
					if err != nil && (mode < 3 || !errors.Is(err, context.Canceled)) {
						g.fail("lock.Context/refused-without-cause", "acquisition failed with %v (context mode %d; only modes 3 and 4 cancel)", err, mode)
					}
					cancel()
					s.op(2)
				}
			})
		}

		// ---- lock.OuterCancel ----
		errStop := errors.New("writer wants the lock")
		oc := lock.NewOuterCancel(errStop, time.Millisecond)
		runCtx, stopRun := context.WithCancel(context.Background())
		runDone := make(chan struct{})
		go func() {
			defer close(runDone)
			defer func() {
				if p := recover(); p != nil {
					g.fail("panic/OuterCancel.Run", "OuterCancel.Run panicked: %v", p)
				}
			}()
			oc.Run(runCtx)
		}()
		var ocState guarded
		var ocSections atomic.Int64
		var writerHolds atomic.Int32
		var regMu sync.Mutex
		holding := map[int]context.Context{} // readers that hold and have not released
		var og, wgrp group
		writersDone := make(chan struct{})
		for w := 0; w < 4; w++ {
			w := w
			og.Go("OuterCancel-reader", func() {
				for i := 0; i < 12; i++ {
					id := w*100 + i
					rctx, release, err := oc.RLock(context.Background())
					if err != nil {
						g.fail("lock.OuterCancel/refused-without-cause", "RLock with a live context on a running lock failed: %v", err)
						return
					}
					// (a reader that was already told to stop may overlap a writer)
					if n := writerHolds.Load(); n != 0 && rctx.Err() == nil {
						g.fail("lock.OuterCancel/reader-admitted-while-writer-holds", "RLock returned a live context while %d writers hold the lock", n)
					}
					regMu.Lock()
					holding[id] = rctx
					regMu.Unlock()
					if (w+i+variant)%2 == 0 {
						// holds until told to stop
						select {
						case <-rctx.Done():
							if c := context.Cause(rctx); !errors.Is(c, errStop) {
								g.fail("lock.OuterCancel/reader-cancelled-for-another-reason", "a reader that neither released nor had its parent cancelled was stopped with cause %v", c)
							}
						case <-writersDone:
							// no writer will come by any more: release
						}
					} else if rctx.Err() != nil {
						// told to stop right away by a waiting writer: allowed
						if c := context.Cause(rctx); !errors.Is(c, errStop) {
							g.fail("lock.OuterCancel/reader-cancelled-for-another-reason", "a fresh reader was stopped with cause %v", c)
						}
					}
					regMu.Lock()
					delete(holding, id)
					regMu.Unlock()
					release()
					s.op(2)
				}
			})
		}
		for w := 0; w < 2; w++ {
			wgrp.Go("OuterCancel-writer", func() {
				for i := 0; i < 6; i++ {
					unlock := oc.Lock()
					writerHolds.Add(1)
					regMu.Lock()
					for id, rctx := range holding {
						if rctx.Err() == nil {
							g.fail("lock.OuterCancel/writer-beside-reader-not-told-to-stop", "Lock returned while reader %d holds the lock and its context is still live", id)
						}
					}
					regMu.Unlock()
					ocState.write(&g, "lock.OuterCancel")
					ocSections.Add(1)
					writerHolds.Add(-1)
					unlock()
					s.op(2)
					runtime.Gosched()
				}
			})
		}

		if !g.Wait() {
			g.flush(s, round)
			s.hang("a Lock/Unlock pair of fifo.Mutex, fifo.Map, cmap.Mutex or lock.Context returning", round)
			stopRun()
			break
		}
		wok := wgrp.Wait()
		close(writersDone)
		wgrp.flush(s, round)
		if !wok || !og.Wait() {
			og.flush(s, round)
			g.flush(s, round)
			s.hang("an OuterCancel RLock/Lock returning while Run is live and every reader releases when told to", round)
			stopRun()
			break
		}
		og.flush(s, round)

		// shutdown of the outer-cancel lock
		stopRun()
		select {
		case <-runDone:
		case <-time.After(hangTimeout):
			s.hang("OuterCancel.Run returning after its context ended", round)
		}
		if !s.more() {
			stopRun()
			break
		}
		if ok, p := returns(func() {
			// closeCh is closed by a helper goroutine after Run's context ended
			if !eventually(func() bool {
				_, _, err := oc.RLock(context.Background())
				return err != nil
			}, nil) {
				g.fail("lock.OuterCancel/reader-admitted-after-shutdown", "RLock keeps succeeding after Run's context ended")
			}
			oc.Lock()()
			s.op(3)
		}); !ok || p != nil {
			if p != nil {
				g.fail("panic/OuterCancel-after-shutdown", "Lock/RLock after shutdown panicked: %v", p)
			} else {
				s.hang("OuterCancel Lock/RLock returning after shutdown", round)
				stopRun()
				break
			}
		}

		// nothing lost, nothing leaked
		if got, want := int64(fmState.plain), 2*fmSections.Load(); got != want {
			g.fail("fifo.Mutex/lost-critical-section", "guarded counter %d after %d sections of 2", got, want/2)
		}
		for k := range fkeys {
			if got, want := int64(fmapState[k].plain), 2*fmapSections[k].Load(); got != want {
				g.fail("fifo.Map/lost-critical-section", "key %s: guarded counter %d after %d sections of 2", fkeys[k], got, want/2)
			}
		}
		for k := range ckeys {
			if got, want := int64(cmState[k].plain), 2*cmSections[k].Load(); got != want {
				g.fail("cmap.Mutex/lost-critical-section", "key %s: guarded counter %d after %d sections of 2", ckeys[k], got, want/2)
			}
		}
		if got, want := int64(lcState.plain), 2*lcSections.Load(); got != want {
			g.fail("lock.Context/lost-critical-section", "guarded counter %d after %d sections of 2", got, want/2)
		}
		if got, want := int64(ocState.plain), 2*ocSections.Load(); got != want {
			g.fail("lock.OuterCancel/lost-critical-section", "guarded counter %d after %d sections of 2", got, want/2)
		}
		if n := cm.ItemCount(); n > len(ckeys) {
			g.fail("cmap.Mutex/private-key-state-left-behind", "ItemCount() = %d at the end; the %d shared keys are the only ones not deleted by their only user", n, len(ckeys))
		}
		// an acquisition that reported an error must hold nothing
		if ok, _ := returns(func() {
			if err := lc.Lock(context.Background()); err == nil {
				lc.Unlock()
			}
			for _, k := range fkeys {
				fmap.Lock(k)
				fmap.Unlock(k)
			}
			fm.Lock()
			fm.Unlock()
			s.op(10)
		}); !ok {
			g.flush(s, round)
			s.hang("acquiring a lock that every user has released", round)
			stopRun()
			break
		}
		g.flush(s, round)
		done++
	}
	return map[string]any{"rounds": done, "goroutines_per_round": 4*G + 7}
}
