// Package c03 decides property C03 (crypto: every algorithm round-trips,
// interoperates and rejects tampering) by complete finite products over
// algorithm name x key x lengths x mutation, against verif/ref/cryptoref.
package c03

import (
	"bytes"
	"errors"
	"fmt"
	"go/ast"
	"go/parser"
	"go/token"
	"os"
	"path/filepath"
	"sort"
	"strconv"
	"strings"
	"sync"

	kit "github.com/dapr/kit/crypto"
	"github.com/dapr/kit/crypto/padding"

	"verif/ref/cryptokeys"
	"verif/ref/cryptoref"
)

// ---------------------------------------------------------------------------
// the algorithm-name space

type algInfo struct {
	Name       string
	Ref        cryptoref.Alg
	Known      bool // the reference implements the name
	ListedSym  bool // returned by SupportedSymmetricAlgorithms
	ListedAsym bool // returned by SupportedAsymmetricAlgorithms
	ListedSig  bool // returned by SupportedSignatureAlgorithms
	Const      bool // a constant of consts.go
}

func (a *algInfo) listed() bool { return a.ListedSym || a.ListedAsym || a.ListedSig }

// class name used in finding keys
func (a *algInfo) class() string {
	switch a.Ref.Class {
	case cryptoref.CBCPad:
		return "CBC"
	case cryptoref.CBCNoPad:
		return "CBC-NOPAD"
	case cryptoref.GCM:
		return "GCM"
	case cryptoref.CBCHMAC:
		return "CBC-HMAC"
	case cryptoref.KW:
		return "KW"
	case cryptoref.C20P:
		return "C20P"
	case cryptoref.XC20P:
		return "XC20P"
	case cryptoref.RSA15:
		return "RSA1_5"
	case cryptoref.OAEP:
		return "RSA-OAEP"
	case cryptoref.SigRSAPKCS1:
		return "RS"
	case cryptoref.SigRSAPSS:
		return "PS"
	case cryptoref.SigECDSA:
		return "ES"
	case cryptoref.SigEdDSA:
		return "EdDSA"
	}
	if a.Const {
		return "unsupported-constant"
	}
	return "junk-name"
}

// fallback when consts.go cannot be parsed: the constants at the pinned commit
var constFallback = []string{
	kit.Algorithm_A128CBC, kit.Algorithm_A192CBC, kit.Algorithm_A256CBC, kit.Algorithm_A128CBC_NOPAD, kit.Algorithm_A192CBC_NOPAD, kit.Algorithm_A256CBC_NOPAD,
	kit.Algorithm_A128GCM, kit.Algorithm_A192GCM, kit.Algorithm_A256GCM, kit.Algorithm_A128CBC_HS256, kit.Algorithm_A192CBC_HS384, kit.Algorithm_A256CBC_HS512,
	kit.Algorithm_A128KW, kit.Algorithm_A192KW, kit.Algorithm_A256KW, kit.Algorithm_A128GCMKW, kit.Algorithm_A192GCMKW, kit.Algorithm_A256GCMKW,
	kit.Algorithm_C20P, kit.Algorithm_XC20P, kit.Algorithm_C20PKW, kit.Algorithm_XC20PKW,
	kit.Algorithm_ECDH_ES, kit.Algorithm_ECDH_ES_A128KW, kit.Algorithm_ECDH_ES_A192KW, kit.Algorithm_ECDH_ES_A256KW,
	kit.Algorithm_RSA1_5, kit.Algorithm_RSA_OAEP, kit.Algorithm_RSA_OAEP_256, kit.Algorithm_RSA_OAEP_384, kit.Algorithm_RSA_OAEP_512,
	kit.Algorithm_ES256, kit.Algorithm_ES384, kit.Algorithm_ES512, kit.Algorithm_EdDSA, kit.Algorithm_HS256, kit.Algorithm_HS384, kit.Algorithm_HS512,
	kit.Algorithm_PS256, kit.Algorithm_PS384, kit.Algorithm_PS512, kit.Algorithm_RS256, kit.Algorithm_RS384, kit.Algorithm_RS512,
}

var junkNames = []string{"", "A", "a128gcm", "A128GCM ", "A999KW", "NOPE-ALG"}

// constNames reads every Algorithm_* string constant out of kit's consts.go
// (so a constant added later joins the space by itself).
func constNames() (names []string, fromSource bool) {
	dir := os.Getenv("VERIF_KIT_DIR")
	if dir == "" {
		dir = os.Getenv("VERIF_REPO")
	}
	if dir == "" {
		dir = "/repo"
	}
	f, err := parser.ParseFile(token.NewFileSet(), filepath.Join(dir, "crypto", "consts.go"), nil, 0)
	if err != nil {
		return constFallback, false
	}
	for _, d := range f.Decls {
		gd, ok := d.(*ast.GenDecl)
		if !ok || gd.Tok != token.CONST {
			continue
		}
		for _, s := range gd.Specs {
			vs := s.(*ast.ValueSpec)
			for i, n := range vs.Names {
				if !strings.HasPrefix(n.Name, "Algorithm_") || i >= len(vs.Values) {
					continue
				}
				if bl, ok := vs.Values[i].(*ast.BasicLit); ok && bl.Kind == token.STRING {
					if v, err := strconv.Unquote(bl.Value); err == nil {
						names = append(names, v)
					}
				}
			}
		}
	}
	if len(names) == 0 {
		return constFallback, false
	}
	return names, true
}

func buildAlgs() (algs []*algInfo, fromSource bool) {
	idx := map[string]*algInfo{}
	get := func(n string) *algInfo {
		if a, ok := idx[n]; ok {
			return a
		}
		a := &algInfo{Name: n}
		a.Ref, a.Known = cryptoref.Lookup(n)
		idx[n] = a
		algs = append(algs, a)
		return a
	}
	for _, n := range kit.SupportedSymmetricAlgorithms() {
		get(n).ListedSym = true
	}
	for _, n := range kit.SupportedAsymmetricAlgorithms() {
		get(n).ListedAsym = true
	}
	for _, n := range kit.SupportedSignatureAlgorithms() {
		get(n).ListedSig = true
	}
	cn, fromSource := constNames()
	for _, n := range cn {
		get(n).Const = true
	}
	for _, n := range junkNames {
		get(n)
	}
	return algs, fromSource
}

// ---------------------------------------------------------------------------
// keys

var algByName = map[string]*algInfo{}

// env is one worker's private copy of the key space (jwk.Key values carry a
// lock; sharing them between 16 workers serialises the run).
type env struct {
	keys      []*cryptokeys.Key // the key dimension: oct sizes + key A of every asymmetric kind
	sigKeys   []*cryptokeys.Key // keys + key B of every asymmetric kind
	ids       []string          // ids[i] = keys[i].String()
	keyByID   map[string]*cryptokeys.Key
	octBySize map[int]*cryptokeys.Key
	st        [nStats]int64     // per-worker oracle counters, summed at the end
	sigCache  map[string][]byte // reference signatures (constant-stream randomness) by algorithm and digest
}

// oracle counters
const (
	stRoundTrip   = iota // fault-free: kit decrypts / verifies its own output
	stRefOpensKit        // fault-free: the reference opens kit's output
	stKitOpensRef        // fault-free: kit opens the reference's output
	stRejected           // something wrong with the inputs: error, sentinel and no output checked
	stMutation           // a single-byte change of a valid output: rejection checked
	stIgnoredArg         // fault-free call whose result must not depend on an argument the algorithm does not take
	stSequence           // call on an object that earlier calls have used, compared with the same call on a fresh object
	nStats
)

var statNames = [nStats]string{"roundtrips_checked", "reference_opened_kit_output", "kit_opened_reference_output", "rejections_checked", "mutations_checked", "valid_calls_with_unused_arguments_varied", "calls_on_reused_objects_checked"}

var (
	envMu   sync.Mutex
	allEnvs []*env
)

var (
	baseKeys []*cryptokeys.Key
	baseB    []*cryptokeys.Key
	envPool  sync.Pool
)

func initKeys() {
	if baseKeys != nil {
		return
	}
	baseKeys = cryptokeys.All()
	for _, kd := range cryptokeys.AsymKinds {
		baseB = append(baseB, cryptokeys.Asym(kd, "B"))
	}
}

func newEnv() *env {
	e := &env{keyByID: map[string]*cryptokeys.Key{}, octBySize: map[int]*cryptokeys.Key{}}
	envMu.Lock()
	allEnvs = append(allEnvs, e)
	envMu.Unlock()
	for _, k := range baseKeys {
		c := k.Clone()
		e.keys = append(e.keys, c)
		e.ids = append(e.ids, c.String())
		e.keyByID[c.String()] = c
		if c.Kind == cryptokeys.Oct {
			e.octBySize[c.Size] = c
		}
	}
	e.sigKeys = append(e.sigKeys, e.keys...)
	for _, k := range baseB {
		c := k.Clone()
		e.sigKeys = append(e.sigKeys, c)
		e.keyByID[c.String()] = c
	}
	return e
}

func getEnv() *env {
	if e, ok := envPool.Get().(*env); ok {
		return e
	}
	return newEnv()
}

func putEnv(e *env) { envPool.Put(e) }

func (e *env) asym(kind cryptokeys.Kind, which string) *cryptokeys.Key {
	return e.keyByID[string(kind)+"#"+which]
}

func (e *env) partner(k *cryptokeys.Key) *cryptokeys.Key {
	p := cryptokeys.Partner(k)
	return e.keyByID[p.String()]
}

// symKeyLen is the reference's view of a key handed to a symmetric entry
// point: its length, or -1 when it is not an octet sequence.
func symKeyLen(k *cryptokeys.Key) int {
	if k.Kind != cryptokeys.Oct {
		return -1
	}
	return k.Size
}

// ---------------------------------------------------------------------------
// deterministic data

var (
	ptMaster    []byte
	nonceMaster []byte
	tagExt      []byte
	aads        [3][]byte
	ptLens      []int
	masters     [][]byte // snapshots to prove the check never had its inputs modified
)

// kwLongLens are key-data lengths (bytes) for which the RFC 3394 step counter
// t = n*j+i (at most 6n) leaves one byte (6n > 255 from n = 43) and two bytes
// (6n > 65535 from n = 10923): 8 x {42, 43, 44, 64, 128, 10923}. n = 42 is the
// last length for which a counter kept in one byte is still right.
var kwLongLens = []int{8 * 42, 8 * 43, 8 * 44, 8 * 64, 8 * 128, 8 * 10923}

func initData() {
	ptMaster = cryptokeys.Bytes("plaintext", kwLongLens[len(kwLongLens)-1]+64)
	nonceMaster = cryptokeys.Bytes("nonce", 40)
	tagExt = cryptokeys.Bytes("tag-extension", 40)
	aads = [3][]byte{nil, {}, cryptokeys.Bytes("associated-data", 5)}
	ptLens = ptLens[:0]
	for i := 0; i <= 64; i++ {
		ptLens = append(ptLens, i)
	}
	ptLens = append(ptLens, 65, 100)
	masters = [][]byte{clone(ptMaster), clone(nonceMaster), clone(tagExt), clone(aads[2])}
}

func mastersIntact() bool {
	return bytes.Equal(masters[0], ptMaster) && bytes.Equal(masters[1], nonceMaster) && bytes.Equal(masters[2], tagExt) && bytes.Equal(masters[3], aads[2])
}

func clone(b []byte) []byte {
	if b == nil {
		return nil
	}
	return append([]byte{}, b...)
}

// clip removes spare capacity, so that an append by the code under test can
// never reach the shared master strings (C17 is about that; C03 must not be
// disturbed by it).
func clip(b []byte) []byte { return b[:len(b):len(b)] }

func pt(n int) []byte    { return clip(ptMaster[:n]) }
func nonce(n int) []byte { return clip(nonceMaster[:n]) }

// resize returns b cut or extended (with fixed filler) to n bytes.
func resize(b []byte, n int) []byte {
	out := make([]byte, n)
	c := copy(out, b)
	copy(out[c:], tagExt)
	return out
}

// ---------------------------------------------------------------------------
// sentinels

var sentinels = []struct {
	f    cryptoref.Fault
	err  error
	name string
}{
	{cryptoref.FaultAlg, kit.ErrUnsupportedAlgorithm, "ErrUnsupportedAlgorithm"},
	{cryptoref.FaultKey, kit.ErrKeyTypeMismatch, "ErrKeyTypeMismatch"},
	{cryptoref.FaultNonce, kit.ErrInvalidNonce, "ErrInvalidNonce"},
	{cryptoref.FaultTag, kit.ErrInvalidTag, "ErrInvalidTag"},
	{cryptoref.FaultPlaintextLen, kit.ErrInvalidPlaintextLength, "ErrInvalidPlaintextLength"},
	{cryptoref.FaultCiphertextLen, kit.ErrInvalidCiphertextLength, "ErrInvalidCiphertextLength"},
}

func errName(err error) string {
	if err == nil {
		return "nil"
	}
	for _, s := range sentinels {
		if errors.Is(err, s.err) {
			return s.name
		}
	}
	switch {
	case errors.Is(err, padding.ErrInvalidPKCS7Padding):
		return "padding.ErrInvalidPKCS7Padding"
	case errors.Is(err, padding.ErrInvalidPKCS7BlockSize):
		return "padding.ErrInvalidPKCS7BlockSize"
	}
	return fmt.Sprintf("other(%q)", err.Error())
}

// sentinelOK reports whether err is the package sentinel of one of the faults
// present. demanded is the subset of faults for which consts.go clearly defines
// a sentinel for the case at hand; if every present fault is outside it any
// non-nil error is accepted.
func sentinelOK(err error, present, demanded cryptoref.Fault) bool {
	if present&cryptoref.FaultAlg != 0 {
		// for a name that is not a supported algorithm of the entry point no
		// key is of the right kind either (Encrypt routes the unsupported
		// A*GCMKW constants to the symmetric family, which then objects to an
		// RSA key): both sentinels describe the input correctly
		present |= cryptoref.FaultKey
	}
	if present&demanded != present {
		// something is wrong for which no sentinel is clearly defined: the
		// implementation may legitimately report that one
		return true
	}
	for _, s := range sentinels {
		if present&s.f != 0 && errors.Is(err, s.err) {
			return true
		}
	}
	return false
}

// ---------------------------------------------------------------------------
// cases and findings

// Case identifies one evaluated case; it is the replay value.
type Case struct {
	Sec   string `json:"sec"`
	Alg   string `json:"alg"`
	Key   string `json:"key,omitempty"`
	PT    int    `json:"pt"`
	Nonce int    `json:"nonce"`
	Tag   int    `json:"tag"`
	AAD   int    `json:"aad"`
	Raw   bool   `json:"raw,omitempty"`   // sym-dec: ciphertext is arbitrary bytes of length PT
	Dst   int    `json:"dst,omitempty"`   // aead: destination variant
	Ctor  string `json:"ctor,omitempty"`  // aead: constructor
	KSize int    `json:"ksize,omitempty"` // aead / kw: raw key size
	Mut   *Mut   `json:"mut,omitempty"`
	Seq   []int  `json:"seq,omitempty"` // state: the operations applied, in order, to one object (Ctor names the family)
}

// Mut is one single-byte change of one component.
type Mut struct {
	Comp string `json:"comp"` // ciphertext | tag | nonce | aad | wrapped-key | digest | signature | label
	Op   string `json:"op"`   // xor | drop-last | append | prepend | drop-first | strip-leading-zeros
	Pos  int    `json:"pos"`
	Val  byte   `json:"val"`
}

func (m *Mut) String() string {
	if m == nil {
		return "-"
	}
	if m.Op == "xor" {
		return fmt.Sprintf("%s[%d]^=%#02x", m.Comp, m.Pos, m.Val)
	}
	return m.Comp + ":" + m.Op
}

// apply returns the mutated copy of b.
func (m *Mut) apply(b []byte) []byte {
	switch m.Op {
	case "xor":
		out := clone(b)
		if out == nil {
			out = []byte{}
		}
		out[m.Pos] ^= m.Val
		return out
	case "drop-last":
		return clone(b[:len(b)-1])
	case "append":
		return append(clone(b), m.Val)
	case "prepend":
		return append([]byte{m.Val}, b...)
	case "drop-first":
		return clone(b[1:])
	case "strip-leading-zeros":
		i := 0
		for i < len(b) && b[i] == 0 {
			i++
		}
		return clone(b[i:])
	}
	panic("bad mutation op")
}

type finding struct {
	key string
	msg string
}

type sink struct {
	out []finding
}

func (s *sink) add(key, format string, a ...any) {
	s.out = append(s.out, finding{key, fmt.Sprintf(format, a...)})
}

func hx(b []byte) string {
	if b == nil {
		return "nil"
	}
	if len(b) > 48 {
		return fmt.Sprintf("%x..(%d bytes)", b[:48], len(b))
	}
	return fmt.Sprintf("%x", b)
}

func sortedKeys(m map[string]int64) []string {
	var ks []string
	for k := range m {
		ks = append(ks, k)
	}
	sort.Strings(ks)
	return ks
}
