package c03

import (
	"encoding/json"
	"fmt"
	"os"
	"sync/atomic"
	"testing"
	"time"

	"verif/enumx"
	"verif/ref/cryptokeys"
	"verif/ref/cryptoref"
)

func TestCheck(t *testing.T) { enumx.Main(t, "C03", "algorithms", run) }

// unit is one shard of the enumeration: it evaluates a block of cases and
// returns how many it evaluated and how many of them were non-trivial (at most
// one thing wrong with the inputs, or a mutation of a valid output).
type unit struct {
	sec string
	fn  func(u *ctx)
	idx int
}

type ctx struct {
	r     *enumx.Run
	e     *env
	n, nt int64
	found []pending
	perK  map[string]int
}

// pending is a finding waiting to be reported: shards run in parallel, the
// findings are handed to the Run afterwards in shard order, so that the (at
// most 20 per key) findings kept and their replay files are the same in every
// run.
type pending struct {
	f finding
	c Case
}

func (u *ctx) emit(c Case, fs []finding) {
	for _, f := range fs {
		if u.perK == nil {
			u.perK = map[string]int{}
		}
		if u.perK[f.key]++; u.perK[f.key] > 20 {
			continue
		}
		if c.Mut != nil {
			m := *c.Mut
			c.Mut = &m
		}
		u.found = append(u.found, pending{f, c})
	}
}

func (u *ctx) count(nontrivial bool) {
	u.n++
	if nontrivial {
		u.nt++
	}
}

func one(f cryptoref.Fault) bool { return f&(f-1) == 0 } // zero or one bit set

func setup() {
	cryptoref.Rand = cryptoref.ConstReader(0x5A)
	initKeys()
	initData()
	algs, _ := buildAlgs()
	for _, a := range algs {
		algByName[a.Name] = a
	}
}

func run(r *enumx.Run, replay *enumx.ReplayCase) {
	setup()
	if replay != nil {
		var c Case
		if err := json.Unmarshal(replay.Case, &c); err != nil {
			r.Violation("machinery/bad-replay", err.Error(), nil)
			return
		}
		e := newEnv()
		for _, f := range e.evalCase(c) {
			if f.key == replay.Key {
				r.Violation(f.key, f.msg, c)
			}
		}
		return
	}
	algs, fromSource := buildAlgs()
	r.Rule("complete product, no sampling: every algorithm name (the three Supported* lists + every Algorithm_* constant of consts.go + junk names) x every key (oct 1..72 bytes, RSA-2048, P-256/384/521, Ed25519, public and private) x plaintext length 0..64,65,100 x nonce length 0..32 x tag length 0..32 x associated data {nil, empty, 5 bytes} through Encrypt/EncryptSymmetric and Decrypt/DecryptSymmetric; aeskw and aescbcaead directly for every KEK / key size; every (asymmetric algorithm, key kind) pair x 4-5 message lengths; aeskw and A*KW also for key data of 42, 43, 44, 64, 128 and 10923 blocks (step counter beyond one and two bytes); every sequence of up to 3 operations (valid, failing and panicking ones) on ONE aescbcaead AEAD value per constructor and on ONE jwk.Key from ParseKey, each step compared with the same call on a fresh object; records nonce|tag|ciphertext (and plaintexts) stored back to back in one buffer and processed in every order of two (0,1 / 1,0 / 0,0 / 1,1), every symmetric algorithm, both entry points; for RS*/PS* a genuine signature whose first octet is zero (deterministic search) with that octet removed, and for every signature a prepended octet, a dropped first octet and stripped leading zeros; every single-byte change (each position x each xor value, drop last byte, append a byte) of ciphertext, tag, nonce, associated data, wrapped key, label, digest and signature for 3 lengths per algorithm. A case is counted non-trivial when at most one thing is wrong with its inputs (it then reaches the cryptographic code or the one size/kind check that must reject it) or when it is a mutation of a valid output; every case is distinct by construction (index tuple).")
	r.Assume("the reference (verif/ref/cryptoref) is correct: standard-library primitives called directly; RFC 3394 and RFC 7518 §5.2 written from the RFC text and anchored by the RFCs' vectors (go test ./ref/cryptoref)")
	r.Assume("asymmetric keys are fixed (generated once, embedded); symmetric keys, nonces, plaintexts are SHA-256-derived from VERIF_SEED; randomised operations (RSAES, PSS, ECDSA) are judged relationally only")
	r.Assume("a zero-length octet key cannot be expressed as jwk.Key (jwx refuses it) and is covered only through the aescbcaead constructors; aeskw takes a cipher.Block, so its key sizes are those of crypto/aes")
	r.Assume("not demanded (outside the statement): wrapped keys / ciphertexts of impossible sizes (C07), RSAES-PKCS1-v1_5 ciphertext mutation (unauthenticated), the size of a digest, which sentinel is returned where consts.go defines none for the case (key-wrap plaintext length, RSA message too long, packages aeskw/aescbcaead)")
	r.Set("algorithm_names", len(algs))
	r.Set("algorithm_names_read_from_consts_go", fromSource)
	r.Set("keys", len(baseKeys))
	for _, a := range algs {
		if a.listed() && !a.Known {
			r.Incomplete("the package lists " + a.Name + " as supported but the reference does not implement it")
		}
	}

	// RSA private-key operations cost milliseconds (kit rebuilds the key from
	// the JWK on every call, without CRT values): the xor values tried per
	// position are tiered for the asymmetric mutations only
	asymXor := []byte{0x01, 0x80, 0xFF} // signature / digest / label: every position x these xor values
	rsaCTXor := []byte{0x01}            // RSA-OAEP ciphertext: every position x these xor values
	if r.Thorough() {
		asymXor = []byte{0x01, 0x02, 0x04, 0x08, 0x10, 0x20, 0x40, 0x80, 0xFF}
		rsaCTXor = []byte{0x01, 0x80, 0xFF}
	}

	// sym-dec varies nonce length and tag length together. thorough: all 33x33
	// pairs for every plaintext length. quick: all pairs for the plaintext
	// lengths around the block boundaries; for the other lengths every pair in
	// which at least one of the two is a length some algorithm uses (12, 16, 24,
	// 32) or 0 - i.e. each of nonce and tag still takes every value 0..32
	// against every valid value of the other.
	edge := map[int]bool{0: true, 12: true, 16: true, 24: true, 32: true}
	boundary := map[int]bool{0: true, 1: true, 15: true, 16: true, 17: true, 31: true, 32: true, 33: true, 64: true, 100: true}
	fullPairs := func(pl int) bool { return r.Thorough() || boundary[pl] }

	var units []unit
	add := func(sec string, fn func(u *ctx)) { units = append(units, unit{sec, fn, len(units)}) }

	// ---- sym-enc and sym-dec
	nonceAll := make([]int, 33)
	for i := range nonceAll {
		nonceAll[i] = i
	}
	tagAll := nonceAll
	for _, a := range algs {
		a := a
		symName := a.Known && a.Ref.Symmetric()
		nonces, tags := nonceAll, tagAll
		if !symName {
			// names that are not symmetric algorithms are rejected before any
			// size is looked at; two nonce / tag lengths keep the product honest
			nonces, tags = []int{0, 12}, []int{0, 16}
		}
		for _, pl := range ptLens {
			pl := pl
			add("sym-enc", func(u *ctx) {
				for ki, k := range u.e.keys {
					for _, nl := range nonces {
						for ai := range aads {
							c := Case{Sec: "sym-enc", Alg: a.Name, Key: u.e.ids[ki], PT: pl, Nonce: nl, AAD: ai}
							f, _ := symFaults("EncryptSymmetric", a, k, nl, pl, 0, false)
							u.count(one(f))
							u.emit(c, u.e.evalSymEnc(c))
						}
					}
				}
			})
			add("sym-dec", func(u *ctx) {
				raws := []bool{false}
				if symName && (a.Ref.Class == cryptoref.CBCPad || a.Ref.Class == cryptoref.CBCNoPad) && pl%16 != 0 {
					raws = append(raws, true) // a ciphertext that is not whole blocks
				}
				for _, raw := range raws {
					for ai := range aads {
						for _, tl := range tags {
							c := Case{Sec: "sym-dec", Alg: a.Name, PT: pl, Tag: tl, AAD: ai, Raw: raw}
							ct, tag, want, rightKey, ok := u.e.decInput(a, c)
							if !ok {
								continue
							}
							for ki, k := range u.e.keys {
								for _, nl := range nonces {
									if !fullPairs(pl) && !edge[nl] && !edge[tl] {
										continue
									}
									c.Key, c.Nonce = u.e.ids[ki], nl
									f, _ := symFaults("DecryptSymmetric", a, k, nl, len(ct), tl, true)
									u.count(one(f))
									u.emit(c, u.e.evalSymDecWith(c, a, k, ct, tag, want, rightKey))
								}
							}
						}
					}
				}
			})
		}
		// ---- sym-mut
		if symName && a.ListedSym && a.Ref.Authenticated() {
			for _, pl := range mutLens(a) {
				for ai := range []int{0, 2} {
					ai := []int{0, 2}[ai]
					pl := pl
					add("sym-mut", func(u *ctx) {
						k := u.e.octBySize[a.Ref.KeyLen]
						ct, tag, err := cryptoref.Encrypt(a.Ref, k.Octets, nonce(a.Ref.NonceLen), pt(pl), aads[ai])
						if err != nil {
							u.r.Violation("machinery/reference-encrypt-failed", err.Error(), nil)
							return
						}
						comps := []struct {
							name string
							n    int
						}{{"ciphertext", len(ct)}, {"tag", len(tag)}, {"nonce", a.Ref.NonceLen}, {"aad", len(aads[ai])}}
						if a.Ref.Class == cryptoref.KW {
							comps = comps[:2]
							comps[0].name = "wrapped-key"
							comps[1].name, comps[1].n = "integrity-value", -8
						}
						for _, cp := range comps {
							if cp.n < 0 { // fixed-size value: xor mutations only
								eachXor(cp.name, -cp.n, allXor, func(m Mut) {
									m2 := m
									c := Case{Sec: "sym-mut", Alg: a.Name, PT: pl, AAD: ai, Mut: &m2}
									u.count(true)
									u.emit(c, u.e.evalSymMut(c))
								})
								continue
							}
							eachMutation(cp.name, cp.n, allXor, func(m Mut) {
								m2 := m
								c := Case{Sec: "sym-mut", Alg: a.Name, PT: pl, AAD: ai, Mut: &m2}
								u.count(true)
								u.emit(c, u.e.evalSymMut(c))
							})
						}
					})
				}
			}
		}
	}

	// ---- kw direct
	for _, ks := range []int{16, 24, 32} {
		ks := ks
		add("kw", func(u *ctx) {
			for _, pl := range ptLens {
				c := Case{Sec: "kw", KSize: ks, PT: pl}
				u.count(true)
				u.emit(c, u.e.evalKW(c))
			}
			for _, pl := range []int{16, 24, 40} {
				eachMutation("wrapped-key", pl+8, allXor, func(m Mut) {
					m2 := m
					c := Case{Sec: "kw", KSize: ks, PT: pl, Mut: &m2}
					u.count(true)
					u.emit(c, u.e.evalKW(c))
				})
				eachXor("integrity-value", 8, allXor, func(m Mut) {
					m2 := m
					c := Case{Sec: "kw", KSize: ks, PT: pl, Mut: &m2}
					u.count(true)
					u.emit(c, u.e.evalKW(c))
				})
			}
		})
	}

	// ---- kw-long: key data long enough for the step counter to need more than
	// one and more than two bytes, aeskw directly and through the four crypto.*
	// entry points, both directions against the RFC 3394 reference
	for _, ks := range []int{16, 24, 32} {
		ks := ks
		for _, pl := range kwLongLens {
			pl := pl
			add("kw-long", func(u *ctx) {
				c := Case{Sec: "kw", KSize: ks, PT: pl}
				u.count(true)
				u.emit(c, u.e.evalKW(c))
				alg := fmt.Sprintf("A%dKW", ks*8)
				key := u.e.octBySize[ks].String()
				for _, ai := range []int{0, 2} {
					c = Case{Sec: "sym-enc", Alg: alg, Key: key, PT: pl, Nonce: 0, AAD: ai}
					u.count(true)
					u.emit(c, u.e.evalSymEnc(c))
					c = Case{Sec: "sym-dec", Alg: alg, Key: key, PT: pl, Nonce: 0, Tag: 0, AAD: ai}
					u.count(true)
					u.emit(c, u.e.evalSymDec(c))
				}
			})
		}
	}

	// ---- state: one reusable object, every sequence of up to three operations
	for _, fam := range stFamilyNames() {
		fam := fam
		nops := len(stFamilyByName(fam).ops)
		for first := 0; first < nops; first++ {
			first := first
			add("state", func(u *ctx) {
				eachSequence(nops, 3, func(seq []int) {
					if seq[0] != first {
						return
					}
					c := Case{Sec: "state", Ctor: fam, Seq: append([]int{}, seq...)}
					u.count(len(seq) > 1)
					u.emit(c, u.e.evalState(c))
				})
			})
		}
	}

	// ---- aescbcaead direct
	aeadSizes := append([]int{}, cryptokeys.SymSizes...)
	for _, ci := range ctors {
		ci := ci
		right := ci.params.EncKeyLen + ci.params.MacKeyLen
		for _, ks := range aeadSizes {
			ks := ks
			if ks != right {
				add("aead", func(u *ctx) {
					c := Case{Sec: "aead", Ctor: ci.name, KSize: ks}
					u.count(true)
					u.emit(c, u.e.evalAEAD(c))
				})
				continue
			}
			for _, pl := range ptLens {
				pl := pl
				add("aead", func(u *ctx) {
					for nl := 0; nl <= 32; nl++ {
						for ai := range aads {
							for dv := 0; dv < nDst; dv++ {
								c := Case{Sec: "aead", Ctor: ci.name, KSize: ks, PT: pl, Nonce: nl, AAD: ai, Dst: dv}
								u.count(true)
								u.emit(c, u.e.evalAEAD(c))
							}
						}
					}
				})
			}
			for _, pl := range []int{0, 17, 32} {
				pl := pl
				for _, ai := range []int{0, 2} {
					ai := ai
					add("aead", func(u *ctx) {
						e, t, _ := cryptoref.CBCHMACSeal(ci.params, cryptokeys.Bytes("oct-master-key", ks), nonce(16), pt(pl), aads[ai])
						for _, cp := range []struct {
							name string
							n    int
						}{{"ciphertext", len(e)}, {"tag", len(t)}, {"nonce", 16}, {"aad", len(aads[ai])}} {
							eachMutation(cp.name, cp.n, allXor, func(m Mut) {
								m2 := m
								c := Case{Sec: "aead", Ctor: ci.name, KSize: ks, PT: pl, Nonce: 16, AAD: ai, Mut: &m2}
								u.count(true)
								u.emit(c, u.e.evalAEAD(c))
							})
						}
					})
				}
			}
		}
	}

	// ---- asymmetric encryption
	for _, a := range algs {
		a := a
		add("asym-enc", func(u *ctx) {
			for ki, k := range u.e.keys {
				for _, pl := range asymLens(a) {
					for ai := range aads {
						c := Case{Sec: "asym-enc", Alg: a.Name, Key: u.e.ids[ki], PT: pl, AAD: ai}
						f, _ := encFaults("EncryptPublicKey", a, k, pl)
						u.count(one(f))
						u.emit(c, u.e.evalAsymEnc(c))
					}
				}
			}
		})
		add("asym-dec", func(u *ctx) {
			for ki := range u.e.keys {
				for _, pl := range asymLens(a) {
					for ai := range aads {
						c := Case{Sec: "asym-dec", Alg: a.Name, Key: u.e.ids[ki], PT: pl, AAD: ai}
						u.count(true)
						u.emit(c, u.e.evalAsymDec(c))
					}
				}
			}
		})
		if a.Known && a.ListedAsym && a.Ref.Class == cryptoref.OAEP {
			max := a.Ref.RSAMaxPlaintext(256)
			for _, pl := range []int{0, 32, max} {
				pl := pl
				for chunk := 0; chunk < 256; chunk += 32 {
					chunk := chunk
					add("asym-mut", func(u *ctx) {
						for pos := chunk; pos < chunk+32; pos++ {
							for _, v := range rsaCTXor {
								c := Case{Sec: "asym-dec", Alg: a.Name, Key: "RSA-2048/private#A", PT: pl, AAD: 2, Mut: &Mut{Comp: "ciphertext", Op: "xor", Pos: pos, Val: v}}
								u.count(true)
								u.emit(c, u.e.evalAsymDec(c))
							}
						}
					})
				}
				add("asym-mut", func(u *ctx) {
					for _, ai := range []int{0, 2} {
						eachMutation("label", len(aads[ai]), asymXor, func(m Mut) {
							m2 := m
							c := Case{Sec: "asym-dec", Alg: a.Name, Key: "RSA-2048/private#A", PT: pl, AAD: ai, Mut: &m2}
							u.count(true)
							u.emit(c, u.e.evalAsymDec(c))
						})
						for _, m := range []Mut{{Comp: "ciphertext", Op: "drop-last"}, {Comp: "ciphertext", Op: "append"}} {
							m2 := m
							c := Case{Sec: "asym-dec", Alg: a.Name, Key: "RSA-2048/private#A", PT: pl, AAD: ai, Mut: &m2}
							u.count(true)
							u.emit(c, u.e.evalAsymDec(c))
						}
					}
				})
			}
		}
	}

	// ---- signatures
	e0 := newEnv()
	nSigKeys := len(e0.sigKeys)
	for _, a := range algs {
		a := a
		for ski := 0; ski < nSigKeys; ski++ {
			ski := ski
			add("sig", func(u *ctx) {
				k := u.e.sigKeys[ski]
				for _, dl := range sigLens {
					c := Case{Sec: "sig-sign", Alg: a.Name, Key: k.String(), PT: dl}
					u.count(true)
					u.emit(c, u.e.evalSign(c))
					c = Case{Sec: "sig-verify", Alg: a.Name, Key: k.String(), PT: dl}
					u.count(true)
					u.emit(c, u.e.evalVerify(c))
				}
			})
		}
		if !(a.Known && a.ListedSig) {
			continue
		}
		// mutations: three digests of the hash's length (EdDSA: three message lengths)
		for di := 0; di < 3; di++ {
			di := di
			var dl int
			if a.Ref.Class == cryptoref.SigEdDSA {
				dl = []int{0, 32, 100}[di]
			} else {
				dl = a.Ref.Hash.Size()
			}
			sig, signer, err := e0.refSignature(a, digest(di, dl))
			if err != nil {
				r.Violation("machinery/reference-sign-failed", a.Name+": "+err.Error(), nil)
				continue
			}
			pub := e0.partner(signer)
			// (the DER length of an ECDSA signature is fixed here because the
			// reference's randomness is a constant stream)
			for chunk := 0; chunk < len(sig); chunk += 8 {
				chunk := chunk
				add("sig-mut", func(u *ctx) {
					for pos := chunk; pos < chunk+8 && pos < len(sig); pos++ {
						for _, v := range asymXor {
							c := Case{Sec: "sig-verify", Alg: a.Name, Key: pub.String(), PT: dl, AAD: di, Mut: &Mut{Comp: "signature", Op: "xor", Pos: pos, Val: v}}
							u.count(true)
							u.emit(c, u.e.evalVerify(c))
						}
					}
				})
			}
			add("sig-mut", func(u *ctx) {
				for _, m := range []Mut{{Comp: "signature", Op: "drop-last"}, {Comp: "signature", Op: "append"}, {Comp: "signature", Op: "append", Val: 0xA7},
					{Comp: "signature", Op: "prepend"}, {Comp: "signature", Op: "prepend", Val: 0xA7}, {Comp: "signature", Op: "drop-first"}, {Comp: "signature", Op: "strip-leading-zeros"}} {
					m2 := m
					c := Case{Sec: "sig-verify", Alg: a.Name, Key: pub.String(), PT: dl, AAD: di, Mut: &m2}
					u.count(true)
					u.emit(c, u.e.evalVerify(c))
				}
				eachMutation("digest", dl, asymXor, func(m Mut) {
					m2 := m
					c := Case{Sec: "sig-verify", Alg: a.Name, Key: pub.String(), PT: dl, AAD: di, Mut: &m2}
					u.count(true)
					u.emit(c, u.e.evalVerify(c))
				})
			})
		}
	}

	// ---- a genuine RSA signature that starts with a zero octet, presented without it
	findZeroSignatures(algs)
	zeroFound := map[string]int{}
	for _, a := range algs {
		a := a
		di, ok := zeroSigDigest[a.Name]
		if !ok {
			continue
		}
		zeroFound[a.Name] = di
		if di < 0 {
			r.Incomplete(fmt.Sprintf("%s: no signature with a leading zero octet among %d digests", a.Name, zeroSearchTries))
			continue
		}
		add("sig-mut", func(u *ctx) {
			dl := a.Ref.Hash.Size()
			// the signature itself must verify (c.Mut == nil), the shortened ones must not
			c := Case{Sec: "sig-verify", Alg: a.Name, Key: "RSA-2048/public#A", PT: dl, AAD: di}
			u.count(true)
			u.emit(c, u.e.evalVerify(c))
			for _, m := range []Mut{{Comp: "signature", Op: "drop-first"}, {Comp: "signature", Op: "strip-leading-zeros"}, {Comp: "signature", Op: "prepend"}, {Comp: "signature", Op: "append"}, {Comp: "signature", Op: "drop-last"}} {
				m2 := m
				c := Case{Sec: "sig-verify", Alg: a.Name, Key: "RSA-2048/public#A", PT: dl, AAD: di, Mut: &m2}
				u.count(true)
				u.emit(c, u.e.evalVerify(c))
			}
		})
	}
	r.Set("rsa_signature_with_leading_zero_octet_found_at_digest_index", zeroFound)

	// ---- records: nonce|tag|ciphertext (and plaintexts) back to back in one buffer
	for _, a := range algs {
		a := a
		if !(a.Known && a.ListedSym) {
			continue
		}
		add("records", func(u *ctx) {
			for _, pl := range recordLens(a) {
				for oi := range recordOrders {
					for _, enc := range []bool{false, true} {
						if !enc && !a.Ref.Authenticated() && a.Ref.Class != cryptoref.CBCPad && a.Ref.Class != cryptoref.CBCNoPad {
							continue
						}
						c := Case{Sec: "records", Alg: a.Name, PT: pl, Dst: oi, Raw: enc}
						u.count(true)
						u.emit(c, u.e.evalRecords(c))
					}
				}
			}
		})
	}

	// ---- run
	total := map[string]int{}
	done := map[string]*atomic.Int64{}
	evals := map[string]*atomic.Int64{}
	busy := map[string]*atomic.Int64{}
	for _, u := range units {
		total[u.sec]++
		if done[u.sec] == nil {
			done[u.sec], evals[u.sec], busy[u.sec] = new(atomic.Int64), new(atomic.Int64), new(atomic.Int64)
		}
	}
	// slow sections first so that the tail is short
	order := map[string]int{"asym-mut": 0, "sig-mut": 1, "asym-dec": 2, "asym-enc": 3, "sig": 4}
	sorted := make([]unit, 0, len(units))
	for pass := 0; pass <= 5; pass++ {
		for _, u := range units {
			o, ok := order[u.sec]
			if !ok {
				o = 5
			}
			if o == pass {
				sorted = append(sorted, u)
			}
		}
	}
	found := make([][]pending, len(sorted))
	r.Parallel(len(sorted), func(i int) {
		u := &ctx{r: r, e: getEnv()}
		t0 := time.Now()
		sorted[i].fn(u)
		found[i] = u.found
		busy[sorted[i].sec].Add(int64(time.Since(t0)))
		putEnv(u.e)
		r.Count(u.n, u.nt)
		evals[sorted[i].sec].Add(u.n)
		done[sorted[i].sec].Add(1)
	})
	// report in the order the shards were built (not the order they ran in)
	byIdx := make([][]pending, len(units))
	for i := range sorted {
		byIdx[sorted[i].idx] = found[i]
	}
	for _, ps := range byIdx {
		for _, p := range ps {
			r.Violation(p.f.key, p.f.msg, p.c)
		}
	}
	perSec := map[string]int64{}
	busySec := map[string]float64{}
	for _, sec := range []string{"sym-enc", "sym-dec", "sym-mut", "kw", "kw-long", "state", "records", "aead", "asym-enc", "asym-dec", "asym-mut", "sig", "sig-mut"} {
		if total[sec] == 0 {
			continue
		}
		perSec[sec] = evals[sec].Load()
		busySec[sec] = float64(busy[sec].Load()/1e7) / 100
		if int(done[sec].Load()) == total[sec] {
			r.Space(fmt.Sprintf("%s: %d cases", sec, evals[sec].Load()))
		} else {
			r.Incomplete(fmt.Sprintf("%s: %d of %d shards done when the budget expired", sec, done[sec].Load(), total[sec]))
		}
	}
	r.Set("evaluations_per_section", perSec)
	envMu.Lock()
	for i, n := range statNames {
		var sum int64
		for _, e := range allEnvs {
			sum += e.st[i]
		}
		r.Set(n, sum)
		if os.Getenv("C03_VERBOSE") != "" {
			fmt.Println(n, sum)
		}
	}
	envMu.Unlock()
	r.Set("worker_seconds_per_section", busySec)
	if os.Getenv("C03_VERBOSE") != "" {
		fmt.Println("evaluations per section:", perSec)
		fmt.Println("worker-seconds per section:", busySec)
	}
	if !mastersIntact() {
		r.Violation("machinery/check-inputs-modified", "the shared input strings of the check were modified during the run", nil)
	}
	r.Sample(Case{Sec: "sym-enc", Alg: "A256GCM", Key: "oct#32", PT: 17, Nonce: 12, AAD: 2})
	r.Sample(Case{Sec: "sym-dec", Alg: "A128CBC-HS256", Key: "oct#32", PT: 33, Nonce: 16, Tag: 15, AAD: 0})
	r.Sample(Case{Sec: "sym-mut", Alg: "A192KW", PT: 24, Mut: &Mut{Comp: "wrapped-key", Op: "xor", Pos: 31, Val: 0x80}})
	r.Sample(Case{Sec: "aead", Ctor: "NewAESCBC256SHA384", KSize: 56, PT: 16, Nonce: 16, AAD: 2, Dst: 3})
	r.Sample(Case{Sec: "asym-enc", Alg: "RSA-OAEP-256", Key: "RSA-2048/public#A", PT: 190, AAD: 2})
	r.Sample(Case{Sec: "sig-verify", Alg: "ES384", Key: "P-384/public#A", PT: 48, AAD: 1, Mut: &Mut{Comp: "signature", Op: "xor", Pos: 9, Val: 0x01}})
}

func (e *env) evalCase(c Case) []finding {
	switch c.Sec {
	case "sym-enc":
		return e.evalSymEnc(c)
	case "sym-dec":
		return e.evalSymDec(c)
	case "sym-mut":
		return e.evalSymMut(c)
	case "kw":
		return e.evalKW(c)
	case "aead":
		return e.evalAEAD(c)
	case "state":
		return e.evalState(c)
	case "records":
		return e.evalRecords(c)
	case "asym-enc":
		return e.evalAsymEnc(c)
	case "asym-dec":
		return e.evalAsymDec(c)
	case "sig-sign":
		return e.evalSign(c)
	case "sig-verify":
		return e.evalVerify(c)
	}
	return []finding{{"machinery/unknown-section", c.Sec}}
}
