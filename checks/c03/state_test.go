package c03

import (
	"bytes"
	"crypto/cipher"
	"fmt"
	"strings"
	"sync"

	kit "github.com/dapr/kit/crypto"
	"github.com/lestrrat-go/jwx/v2/jwk"

	"verif/ref/cryptokeys"
	"verif/ref/cryptoref"
)

// ---------------------------------------------------------------------------
// state: ONE reusable object used for a sequence of calls
//
// The objects the crypto packages hand out for repeated use are the cipher.AEAD
// values of the four aescbcaead constructors and the jwk.Key that
// crypto.ParseKey returns. "Decryption inverts encryption" and "only altered
// ciphertexts are rejected" are statements about every call, not only about
// the first call on a fresh object: every sequence of up to three operations
// (valid Seal / Open, Open of a ciphertext with a bad tag, too short, with a
// nonce of the wrong size, a Seal that panics on its nonce and is recovered,
// Seal / Open into a destination with capacity) is run on ONE object, and the
// result of every step is compared with the result of the same operation on a
// fresh object (which the other sections compare with the reference). A
// difference is state carried from one call to the next.

type stOp struct {
	name string
	do   func(obj any) res
}

type stFamily struct {
	name  string // finding-key site prefix
	fresh func() any
	ops   []stOp
	once  sync.Once
	want  []res
}

func sameRes(a, b res) bool {
	if (a.pan == nil) != (b.pan == nil) {
		return false
	}
	if a.pan != nil {
		return fmt.Sprint(a.pan) == fmt.Sprint(b.pan)
	}
	if (a.err == nil) != (b.err == nil) || a.err != nil && a.err.Error() != b.err.Error() {
		return false
	}
	return bytes.Equal(a.a, b.a) && bytes.Equal(a.b, b.b)
}

var (
	stMu       sync.Mutex
	stFamilies = map[string]*stFamily{}
)

type stMsg struct{ pt, aad []byte }

func stMessages() []stMsg {
	return []stMsg{{pt(0), nil}, {pt(17), aads[2]}, {pt(32), aads[2]}}
}

func aeadFamily(ci ctorInfo) *stFamily {
	key := cryptokeys.Bytes("oct-master-key", ci.params.EncKeyLen+ci.params.MacKeyLen)
	f := &stFamily{name: "aescbcaead." + ci.name, fresh: func() any {
		ae, err := ci.new(clone(key))
		if err != nil {
			panic(err)
		}
		return ae
	}}
	n16, n12 := nonce(16), nonce(12)
	add := func(name string, do func(ae cipher.AEAD) res) {
		f.ops = append(f.ops, stOp{name, func(o any) res { return do(o.(cipher.AEAD)) }})
	}
	for i, m := range stMessages() {
		m := m
		e, t, err := cryptoref.CBCHMACSeal(ci.params, key, n16, m.pt, m.aad)
		if err != nil {
			panic(err)
		}
		ct := append(clone(e), t...)
		bad := clone(ct)
		bad[len(bad)-1] ^= 0x01
		add(fmt.Sprintf("Seal(msg%d)", i), func(ae cipher.AEAD) res { return callSeal(ae, nil, n16, m.pt, m.aad) })
		add(fmt.Sprintf("Open(msg%d)", i), func(ae cipher.AEAD) res { return callOpen(ae, nil, n16, clone(ct), m.aad) })
		add(fmt.Sprintf("Open(msg%d,bad-tag)", i), func(ae cipher.AEAD) res { return callOpen(ae, nil, n16, clone(bad), m.aad) })
		if i == 1 {
			add("Open(msg1,wrong-aad)", func(ae cipher.AEAD) res { return callOpen(ae, nil, n16, clone(ct), nil) })
			add("Open(msg1,12-byte-nonce)", func(ae cipher.AEAD) res { return callOpen(ae, nil, n12, clone(ct), m.aad) })
			add("Seal(msg1,12-byte-nonce: panics, recovered)", func(ae cipher.AEAD) res { return callSeal(ae, nil, n12, m.pt, m.aad) })
			add("Seal(msg1,dst with capacity)", func(ae cipher.AEAD) res { d, _ := makeDst(3); return callSeal(ae, d, n16, m.pt, m.aad) })
			add("Open(msg1,dst with capacity)", func(ae cipher.AEAD) res { d, _ := makeDst(3); return callOpen(ae, d, n16, clone(ct), m.aad) })
			add("Open(shorter than a tag)", func(ae cipher.AEAD) res { return callOpen(ae, nil, n16, clone(t[:len(t)-1]), m.aad) })
		}
	}
	return f
}

// keyFamily: one jwk.Key as crypto.ParseKey returns it for 32 raw bytes, used
// with every symmetric algorithm that takes a 32-byte key.
func keyFamily() *stFamily {
	raw := octRaw32()
	f := &stFamily{name: "ParseKey+jwk.Key", fresh: func() any {
		k, err := kit.ParseKey(clone(raw), "")
		if err != nil {
			panic(err)
		}
		return k
	}}
	add := func(name string, do func(k jwk.Key) res) {
		f.ops = append(f.ops, stOp{name, func(o any) res { return do(o.(jwk.Key)) }})
	}
	m := stMessages()[2]
	for _, name := range []string{"A256CBC", "A256CBC-NOPAD", "A256GCM", "A128CBC-HS256", "C20P", "XC20P", "A256KW"} {
		name := name
		a, _ := cryptoref.Lookup(name)
		n := nonce(a.NonceLen)
		ct, tag, err := cryptoref.Encrypt(a, raw, n, m.pt, m.aad)
		if err != nil {
			panic(err)
		}
		add("EncryptSymmetric("+name+")", func(k jwk.Key) res { return kitEncrypt("EncryptSymmetric", m.pt, name, k, n, m.aad) })
		add("DecryptSymmetric("+name+")", func(k jwk.Key) res {
			return kitDecrypt("DecryptSymmetric", clone(ct), name, k, n, clone(tag), m.aad)
		})
		if a.Authenticated() {
			bad := clone(ct)
			bad[0] ^= 0x80
			add("DecryptSymmetric("+name+",modified ciphertext)", func(k jwk.Key) res {
				return kitDecrypt("DecryptSymmetric", bad, name, k, n, clone(tag), m.aad)
			})
		}
	}
	add("EncryptSymmetric(A128GCM: key of the wrong size)", func(k jwk.Key) res { return kitEncrypt("EncryptSymmetric", m.pt, "A128GCM", k, nonce(12), m.aad) })
	add("SignPrivateKey(RS256: key of the wrong kind)", func(k jwk.Key) res {
		var o res
		o.a, o.err = kit.SignPrivateKey(pt(32), "RS256", k)
		return o
	})
	return f
}

// octRaw32: 32 bytes that ParseKey takes as a raw symmetric key (not valid
// base64: the first byte is not in either alphabet).
func octRaw32() []byte {
	b := clone(cryptokeys.Bytes("state-raw-key", 32))
	b[0] = 0x01
	return b
}

func stFamilyByName(name string) *stFamily {
	stMu.Lock()
	defer stMu.Unlock()
	if f, ok := stFamilies[name]; ok {
		return f
	}
	var f *stFamily
	if name == "ParseKey+jwk.Key" {
		f = keyFamily()
	} else if ci := ctorByName(strings.TrimPrefix(name, "aescbcaead.")); ci != nil {
		f = aeadFamily(*ci)
	}
	stFamilies[name] = f
	return f
}

func stFamilyNames() []string {
	names := []string{}
	for _, ci := range ctors {
		names = append(names, "aescbcaead."+ci.name)
	}
	return append(names, "ParseKey+jwk.Key")
}

// expectations: every operation on a fresh object of its own.
func (f *stFamily) expect() []res {
	f.once.Do(func() {
		for _, op := range f.ops {
			f.want = append(f.want, op.do(f.fresh()))
		}
	})
	return f.want
}

// evalState runs one sequence (c.Seq indexes the family's operations) on one object.
func (e *env) evalState(c Case) []finding {
	f := stFamilyByName(c.Ctor)
	if f == nil {
		return []finding{{"machinery/unknown-state-family", c.Ctor}}
	}
	want := f.expect()
	obj := f.fresh()
	var names []string
	for step, oi := range c.Seq {
		if oi < 0 || oi >= len(f.ops) {
			return []finding{{"machinery/bad-sequence", fmt.Sprint(c.Seq)}}
		}
		names = append(names, f.ops[oi].name)
		got := f.ops[oi].do(obj)
		e.st[stSequence]++
		if !sameRes(got, want[oi]) {
			op := f.ops[oi].name
			// one defect, one key: the constructor is named in the message only
			site := "aescbcaead." + op[:strings.IndexAny(op, "(")]
			if f.name == "ParseKey+jwk.Key" {
				site = op[:strings.IndexAny(op, "(")]
			}
			return []finding{{site + "/result-depends-on-earlier-calls-on-the-same-object",
				fmt.Sprintf("one %s object, calls in this order: %s. Step %d gives %s; the same call on a fresh object gives %s", f.name, strings.Join(names, "; "), step+1, got, want[oi])}}
		}
	}
	return nil
}

// eachSequence enumerates all sequences of length 1..maxLen over n operations.
func eachSequence(n, maxLen int, fn func(seq []int)) {
	var rec func(seq []int)
	rec = func(seq []int) {
		if len(seq) > 0 {
			fn(seq)
		}
		if len(seq) == maxLen {
			return
		}
		for i := 0; i < n; i++ {
			rec(append(seq, i))
		}
	}
	rec(make([]int, 0, maxLen))
}

// ---------------------------------------------------------------------------
// records: what a caller that parses a stream does - several framed records
// nonce | tag | ciphertext sit back to back in ONE buffer, each argument is a
// plain sub-slice b[i:j] of it (so the bytes behind a ciphertext, within its
// capacity, are the next record). Every valid record must decrypt to its
// plaintext whatever was decrypted before it; likewise two plaintexts stored
// back to back must each encrypt to what the reference gives.

var recordOrders = [][]int{{0, 1}, {1, 0}, {0, 0}, {1, 1}}

func recordLens(a *algInfo) []int {
	switch a.Ref.Class {
	case cryptoref.KW:
		return []int{16, 24}
	case cryptoref.CBCNoPad:
		return []int{16, 32}
	}
	return []int{0, 1, 17, 32}
}

func (e *env) evalRecords(c Case) []finding {
	a := algByName[c.Alg]
	k := e.octBySize[a.Ref.KeyLen]
	ad := aads[2]
	type rec struct{ nonce, tag, ct, pt []byte }
	// the reference builds two records (different plaintexts and nonces)
	var refs [2]rec
	for i := range refs {
		p := clone(ptMaster[40*i : 40*i+c.PT])
		n := clone(nonceMaster[i : i+a.Ref.NonceLen])
		ct, tag, err := cryptoref.Encrypt(a.Ref, k.Octets, n, p, ad)
		if err != nil {
			return []finding{{"machinery/reference-encrypt-failed", err.Error()}}
		}
		refs[i] = rec{n, tag, ct, p}
	}
	var s sink
	order := recordOrders[c.Dst]
	if c.Raw {
		// plaintexts back to back: pt0 | pt1 | 64 filler bytes
		buf := append(append(clone(refs[0].pt), refs[1].pt...), tagExt[:40]...)
		view := func(i int) []byte { o := i * len(refs[0].pt); return buf[o : o+len(refs[i].pt)] }
		for _, entry := range []string{"EncryptSymmetric", "Encrypt"} {
			copy(buf, append(clone(refs[0].pt), refs[1].pt...))
			for step, i := range order {
				o := kitEncrypt(entry, view(i), a.Name, k.JWK, refs[i].nonce, ad)
				e.st[stSequence]++
				if o.pan != nil || o.err != nil || !bytes.Equal(o.a, refs[i].ct) || !bytes.Equal(o.b, refs[i].tag) {
					if errName(o.err) == "ErrUnsupportedAlgorithm" {
						break // (listed-but-unsupported is reported by the product sections)
					}
					s.add(entry+"/"+a.class()+"/plaintext-in-shared-buffer-not-encrypted-correctly", "%s alg=%q: two %d-byte plaintexts back to back in one buffer, encrypted in the order %v; step %d (plaintext %d) gives %s, the reference gives (%s, %s)", entry, a.Name, c.PT, order, step+1, i, o, hx(refs[i].ct), hx(refs[i].tag))
					break
				}
			}
		}
		return s.out
	}
	// records back to back: nonce0|tag0|ct0|nonce1|tag1|ct1|filler
	var buf []byte
	var off [2][3]int
	for i, r := range refs {
		off[i][0] = len(buf)
		buf = append(buf, r.nonce...)
		off[i][1] = len(buf)
		buf = append(buf, r.tag...)
		off[i][2] = len(buf)
		buf = append(buf, r.ct...)
	}
	buf = append(buf, tagExt[:40]...)
	pristine := clone(buf)
	for _, entry := range []string{"DecryptSymmetric", "Decrypt"} {
		copy(buf, pristine)
		for step, i := range order {
			r := refs[i]
			n := buf[off[i][0] : off[i][0]+len(r.nonce)]
			tag := buf[off[i][1] : off[i][1]+len(r.tag)]
			ct := buf[off[i][2] : off[i][2]+len(r.ct)] // capacity runs on over whatever follows
			o := kitDecrypt(entry, ct, a.Name, k.JWK, n, tag, ad)
			e.st[stSequence]++
			if o.pan != nil || o.err != nil || !bytes.Equal(o.a, r.pt) {
				if errName(o.err) == "ErrUnsupportedAlgorithm" {
					break
				}
				s.add(entry+"/"+a.class()+"/valid-record-in-shared-buffer-not-decrypted", "%s alg=%q: two records nonce|tag|ciphertext (plaintexts of %d bytes) back to back in one buffer, decrypted in the order %v; step %d (record %d) gives %s, want %s. The buffer now differs from what was received: %v", entry, a.Name, c.PT, order, step+1, i, o, hx(r.pt), !bytes.Equal(buf, pristine))
				break
			}
		}
	}
	return s.out
}
