package c03

import (
	"bytes"
	"fmt"
	"sync"

	kit "github.com/dapr/kit/crypto"
	"github.com/lestrrat-go/jwx/v2/jwk"

	"verif/ref/cryptokeys"
	"verif/ref/cryptoref"
)

func kitEncPub(entry string, p []byte, alg string, k jwk.Key, ad []byte) (o res) {
	defer func() {
		if x := recover(); x != nil {
			o = res{pan: x}
		}
	}()
	if entry == "Encrypt" {
		o.a, o.b, o.err = kit.Encrypt(p, alg, k, nil, ad)
	} else {
		o.a, o.err = kit.EncryptPublicKey(p, alg, k, ad)
	}
	return o
}

func kitDecPriv(entry string, ct []byte, alg string, k jwk.Key, ad []byte) (o res) {
	defer func() {
		if x := recover(); x != nil {
			o = res{pan: x}
		}
	}()
	if entry == "Decrypt" {
		o.a, o.err = kit.Decrypt(ct, alg, k, nil, nil, ad)
	} else {
		o.a, o.err = kit.DecryptPrivateKey(ct, alg, k, ad)
	}
	return o
}

// demandedAsym: sentinels clearly defined for the asymmetric entry points:
// unknown name and key of the wrong kind. (A message too long for the modulus
// comes back as the standard library's rsa.ErrMessageTooLong; consts.go does
// not say ErrInvalidPlaintextLength covers it, so any error is accepted.)
const demandedAsym = cryptoref.FaultAlg | cryptoref.FaultKey

// asymLens are the message lengths of the asymmetric-encryption product.
func asymLens(a *algInfo) []int {
	max := 190
	if a.Known && a.Ref.AsymEnc() {
		max = a.Ref.RSAMaxPlaintext(256)
	}
	return []int{0, 1, 32, max, max + 1}
}

func asymPT(n int) []byte { return clip(cryptokeys.Bytes("asym-plaintext", n)) }

func encFaults(entry string, a *algInfo, k *cryptokeys.Key, ptLen int) (present cryptoref.Fault, lenient bool) {
	if !validFor(entry, a) || !a.Ref.AsymEnc() {
		return cryptoref.FaultAlg, false
	}
	if k.Family != "RSA" {
		present |= cryptoref.FaultKey
	}
	if ptLen > a.Ref.RSAMaxPlaintext(256) {
		present |= cryptoref.FaultPlaintextLen
	}
	// a private key where a public key is expected: kit documents that it
	// derives the public key; an error would be just as acceptable
	return present, k.Family == "RSA" && k.Private
}

func (e *env) evalAsymEnc(c Case) []finding {
	a, k := algByName[c.Alg], e.keyByID[c.Key]
	p, ad := asymPT(c.PT), aads[c.AAD]
	var chain []siteConds
	for _, entry := range []string{"EncryptPublicKey", "Encrypt"} {
		if entry == "Encrypt" && a.Known && a.Ref.Symmetric() && a.ListedSym {
			continue // the symmetric sections own these
		}
		present, lenient := encFaults(entry, a, k, len(p))
		o := kitEncPub(entry, p, a.Name, k.JWK, ad)
		var cs []cond
		if present != 0 {
			e.st[stRejected]++
		} else if o.err == nil {
			e.st[stRoundTrip]++
			e.st[stRefOpensKit]++
		}
		switch {
		case present != 0:
			cs = judgeFaulty(present, demandedAsym, o)
		case o.pan != nil:
			cs = []cond{rejectedCond(a, o)}
		case o.err != nil:
			if !lenient {
				cs = []cond{rejectedCond(a, o)}
			} else if len(o.a) != 0 {
				cs = []cond{{"output-with-error", o.String()}}
			}
		default:
			priv := e.asym(cryptokeys.RSAPriv, k.Which)
			label := ad
			back, err := cryptoref.RSADecrypt(a.Ref, priv.RSA, o.a, label)
			if err != nil || !bytes.Equal(back, p) {
				cs = append(cs, cond{"output-not-opened-by-reference", fmt.Sprintf("the ciphertext does not decrypt under crypto/rsa called directly: %v, got %s want %s", err, hx(back), hx(p))})
			}
			dEntry := "DecryptPrivateKey"
			if entry == "Encrypt" {
				dEntry = "Decrypt"
			}
			if d := kitDecPriv(dEntry, clip(o.a), a.Name, priv.JWK, ad); d.pan != nil || d.err != nil || !bytes.Equal(d.a, p) {
				cs = append(cs, cond{"roundtrip-failed", fmt.Sprintf("%s of the output gives %s, want %s", dEntry, d, hx(p))})
			}
			if len(o.b) != 0 {
				cs = append(cs, cond{"tag-from-tagless-algorithm", "a tag was returned: " + o.String()})
			}
		}
		chain = append(chain, siteConds{entry, cs})
	}
	var s sink
	report(&s, a, fmt.Sprintf("alg=%q key=%s plaintext=%d bytes label=%s", a.Name, k, c.PT, hx(ad)), chain)
	return s.out
}

// asymCiphertext is the reference's encryption (constant-stream randomness)
// under RSA key A, or 256 arbitrary bytes when there is nothing to encrypt.
func (e *env) asymCiphertext(a *algInfo, ptLen int, ad []byte) (ct, want []byte) {
	if a.Known && a.Ref.AsymEnc() && ptLen <= a.Ref.RSAMaxPlaintext(256) {
		want = asymPT(ptLen)
		ct, err := cryptoref.RSAEncrypt(a.Ref, &e.asym(cryptokeys.RSAPub, "A").RSA.PublicKey, want, ad)
		if err != nil {
			panic(err)
		}
		return ct, want
	}
	return cryptokeys.Bytes("arbitrary-ciphertext", 256), nil
}

func decFaults(entry string, a *algInfo, k *cryptokeys.Key) cryptoref.Fault {
	if !validFor(entry, a) || !a.Ref.AsymEnc() {
		return cryptoref.FaultAlg
	}
	if k.Family != "RSA" || !k.Private {
		return cryptoref.FaultKey
	}
	return 0
}

func (e *env) evalAsymDec(c Case) []finding {
	a, k := algByName[c.Alg], e.keyByID[c.Key]
	ad := aads[c.AAD]
	ct, want := e.asymCiphertext(a, c.PT, ad)
	if c.Mut != nil {
		switch c.Mut.Comp {
		case "ciphertext":
			ct = c.Mut.apply(ct)
		case "label":
			ad = c.Mut.apply(ad)
		}
	}
	var chain []siteConds
	for _, entry := range []string{"DecryptPrivateKey", "Decrypt"} {
		if entry == "Decrypt" && a.Known && a.Ref.Symmetric() && a.ListedSym {
			continue
		}
		present := decFaults(entry, a, k)
		o := kitDecPriv(entry, clip(ct), a.Name, k.JWK, ad)
		var cs []cond
		switch {
		case present != 0:
			e.st[stRejected]++
		case c.Mut != nil:
			e.st[stMutation]++
		case want != nil:
			e.st[stKitOpensRef]++
		}
		switch {
		case present != 0:
			cs = judgeFaulty(present, demandedAsym, o)
		case c.Mut != nil:
			for _, cd := range judgeMutated(o, want) {
				if cd.name == "" {
					cd.name = "modified-" + c.Mut.Comp + "-accepted"
				}
				cs = append(cs, cd)
			}
		case want == nil:
			// no expectation
		case o.pan != nil || o.err != nil:
			cd := rejectedCond(a, o)
			if cd.name == "valid-input-rejected" {
				cd.name = "reference-output-not-opened"
			}
			cs = []cond{cd}
		case !bytes.Equal(o.a, want):
			cs = []cond{{"reference-output-not-opened", fmt.Sprintf("crypto/rsa's ciphertext decrypts to %s, want %s", hx(o.a), hx(want))}}
		}
		chain = append(chain, siteConds{entry, cs})
	}
	var s sink
	report(&s, a, fmt.Sprintf("alg=%q key=%s plaintext=%d bytes label=%s mutation %s", a.Name, k, c.PT, hx(aads[c.AAD]), c.Mut), chain)
	return s.out
}

// ---------------------------------------------------------------------------
// signatures

func kitSign(d []byte, alg string, k jwk.Key) (o res) {
	defer func() {
		if x := recover(); x != nil {
			o = res{pan: x}
		}
	}()
	o.a, o.err = kit.SignPrivateKey(d, alg, k)
	return o
}

type vres struct {
	ok  bool
	err error
	pan any
}

func (v vres) String() string {
	if v.pan != nil {
		return fmt.Sprintf("panic(%v)", v.pan)
	}
	return fmt.Sprintf("(%v, %s)", v.ok, errName(v.err))
}

func kitVerify(d, sig []byte, alg string, k jwk.Key) (o vres) {
	defer func() {
		if x := recover(); x != nil {
			o = vres{pan: x}
		}
	}()
	o.ok, o.err = kit.VerifyPublicKey(d, sig, alg, k)
	return o
}

var sigLens = []int{0, 32, 48, 64}

func digest(i, n int) []byte { return clip(cryptokeys.Bytes(fmt.Sprintf("digest-%d", i), n)) }

// refKeys returns the reference's view (standard-library key values) of a key pair.
func refPriv(k *cryptokeys.Key) any {
	switch k.Family {
	case "RSA":
		return k.RSA
	case "Ed25519":
		return k.Ed25519
	}
	return k.ECDSA
}

func refPub(k *cryptokeys.Key) any {
	switch k.Family {
	case "RSA":
		return &k.RSA.PublicKey
	case "Ed25519":
		return k.Ed25519.Public()
	}
	return &k.ECDSA.PublicKey
}

// digestFits: RSASSA and ECDSA names fix the hash (RS256/PS256/ES256 = SHA-256
// ...), so the digest is exactly one hash value long. The statement does not
// list the digest among the inputs whose wrong size must be an error, so for a
// digest of another length there is no expectation either way (crypto/rsa
// refuses it, crypto/ecdsa truncates or zero-extends it). EdDSA takes the
// message itself, of any length.
func digestFits(a *algInfo, n int) bool {
	switch a.Ref.Class {
	case cryptoref.SigRSAPKCS1, cryptoref.SigRSAPSS, cryptoref.SigECDSA:
		return n == a.Ref.Hash.Size()
	}
	return true
}

func sigKeyFault(a *algInfo, k *cryptokeys.Key, needPrivate bool) cryptoref.Fault {
	if k.Family != a.Ref.KeyFamily() || needPrivate && !k.Private {
		return cryptoref.FaultKey
	}
	return 0
}

// sigCond renames the key fault of an ECDSA key on another curve: it is the
// one case the statement covers only through "a key of the wrong ... size".
func sigCond(a *algInfo, k *cryptokeys.Key, cs []cond) []cond {
	for i := range cs {
		if cs[i].name == "invalid-input-accepted:key" && a.Ref.Class == cryptoref.SigECDSA && k.ECDSA != nil {
			cs[i].name = "key-on-wrong-curve-accepted"
			cs[i].msg = fmt.Sprintf("%s is ECDSA over %s (RFC 7518 §3.4, consts.go), the key is on %s: %s", a.Name, a.Ref.Curve, k.Family, cs[i].msg)
		}
	}
	return cs
}

func (e *env) evalSign(c Case) []finding {
	a, k := algByName[c.Alg], e.keyByID[c.Key]
	d := digest(0, c.PT)
	var s sink
	what := fmt.Sprintf("alg=%q key=%s digest=%d bytes", a.Name, k, c.PT)
	add := func(site string, cs []cond) {
		for _, cd := range cs {
			s.add(keyFor(site, a, cd), "%s %s: %s", site, what, cd.msg)
		}
	}
	o := kitSign(d, a.Name, k.JWK)
	if !validFor("SignPrivateKey", a) {
		e.st[stRejected]++
		add("SignPrivateKey", judgeFaulty(cryptoref.FaultAlg, demandedAsym, o))
		return s.out
	}
	if f := sigKeyFault(a, k, true); f != 0 {
		e.st[stRejected]++
		add("SignPrivateKey", sigCond(a, k, judgeFaulty(f, demandedAsym, o)))
		return s.out
	}
	if !digestFits(a, c.PT) {
		if o.pan != nil {
			add("SignPrivateKey", []cond{{"panic", fmt.Sprint(o.pan)}})
		} else if o.err != nil && len(o.a) != 0 {
			add("SignPrivateKey", []cond{{"output-with-error", o.String()}})
		}
		return s.out
	}
	if o.pan != nil || o.err != nil {
		add("SignPrivateKey", []cond{rejectedCond(a, o)})
		return s.out
	}
	e.st[stRoundTrip]++
	e.st[stRefOpensKit]++
	if !cryptoref.Verify(a.Ref, refPub(k), d, o.a) {
		add("SignPrivateKey", []cond{{"signature-rejected-by-reference", fmt.Sprintf("signature %s does not verify under the standard library called directly", hx(o.a))}})
	}
	pub := e.partner(k)
	if v := kitVerify(d, clip(o.a), a.Name, pub.JWK); v.pan != nil || v.err != nil || !v.ok {
		add("VerifyPublicKey", []cond{{"roundtrip-failed", fmt.Sprintf("own signature not accepted with the public key: %s", v)}})
	}
	// the private key in place of the public one: kit derives the public key;
	// an error would be acceptable, a wrong verdict is not
	if v := kitVerify(d, clip(o.a), a.Name, k.JWK); v.pan != nil || (v.err == nil && !v.ok) || (v.err != nil && v.ok) {
		add("VerifyPublicKey", []cond{{"roundtrip-failed", fmt.Sprintf("own signature not accepted with the private key handed in: %s", v)}})
	}
	// another key pair of the same kind must not accept it
	other := e.asym(pub.Kind, map[string]string{"A": "B", "B": "A"}[k.Which])
	if v := kitVerify(d, clip(o.a), a.Name, other.JWK); v.pan != nil || v.ok {
		add("VerifyPublicKey", []cond{{"signature-of-another-key-accepted", fmt.Sprintf("signature made with %s verified with %s: %s", k, other, v)}})
	}
	return s.out
}

// refSignature signs with the reference (constant-stream randomness) using key
// A of the family the algorithm requires.
func (e *env) refSignature(a *algInfo, d []byte) (sig []byte, signer *cryptokeys.Key, err error) {
	var kind cryptokeys.Kind
	switch a.Ref.KeyFamily() {
	case "RSA":
		kind = cryptokeys.RSAPriv
	case "P-256":
		kind = cryptokeys.P256Priv
	case "P-384":
		kind = cryptokeys.P384Priv
	case "P-521":
		kind = cryptokeys.P521Priv
	case "Ed25519":
		kind = cryptokeys.Ed25519Prv
	}
	signer = e.asym(kind, "A")
	id := a.Name + "\x00" + string(d)
	if s, ok := e.sigCache[id]; ok {
		return clone(s), signer, nil
	}
	sig, err = cryptoref.Sign(a.Ref, refPriv(signer), d)
	if err == nil {
		if e.sigCache == nil {
			e.sigCache = map[string][]byte{}
		}
		e.sigCache[id] = clone(sig)
	}
	return sig, signer, err
}

func (e *env) evalVerify(c Case) []finding {
	a, k := algByName[c.Alg], e.keyByID[c.Key]
	d := digest(c.AAD, c.PT) // AAD doubles as the digest index
	var s sink
	what := fmt.Sprintf("alg=%q key=%s digest#%d=%d bytes mutation %s", a.Name, k, c.AAD, c.PT, c.Mut)
	add := func(cs []cond) {
		for _, cd := range cs {
			s.add(keyFor("VerifyPublicKey", a, cd), "VerifyPublicKey %s: %s", what, cd.msg)
		}
	}
	judgeV := func(present cryptoref.Fault, v vres) []cond {
		o := res{err: v.err, pan: v.pan}
		if v.ok {
			if v.err != nil {
				return []cond{{"output-with-error", fmt.Sprintf("wrong %s: %s", present, v)}}
			}
			o.a = []byte("true")
		}
		return judgeFaulty(present, demandedAsym, o)
	}
	if !validFor("VerifyPublicKey", a) {
		e.st[stRejected]++
		add(judgeV(cryptoref.FaultAlg, kitVerify(d, cryptokeys.Bytes("arbitrary-signature", 64), a.Name, k.JWK)))
		return s.out
	}
	if !digestFits(a, c.PT) {
		return nil
	}
	sig, signer, err := e.refSignature(a, d)
	if err != nil {
		return []finding{{"machinery/reference-sign-failed", err.Error()}}
	}
	if c.Mut != nil {
		orig := sig
		switch c.Mut.Comp {
		case "signature":
			if len(sig) == 0 && (c.Mut.Op == "drop-first" || c.Mut.Op == "drop-last") {
				return nil
			}
			sig = c.Mut.apply(sig)
		case "digest":
			d = c.Mut.apply(d)
		}
		if c.Mut.Comp == "signature" && bytes.Equal(orig, sig) {
			return nil // (nothing to strip: not a mutation)
		}
	}
	v := kitVerify(d, clip(sig), a.Name, k.JWK)
	if f := sigKeyFault(a, k, false); f != 0 {
		e.st[stRejected]++
		add(sigCond(a, k, judgeV(f, v)))
		return s.out
	}
	if c.Mut != nil {
		e.st[stMutation]++
		switch {
		case v.pan != nil:
			add([]cond{{"panic", fmt.Sprint(v.pan)}})
		case v.ok:
			add([]cond{{"modified-" + c.Mut.Comp + "-accepted", fmt.Sprintf("verdict %s", v)}})
		}
		return s.out
	}
	e.st[stKitOpensRef]++
	if k.Which == signer.Which {
		// the matching key (public, or private handed in: see evalSign)
		if v.pan != nil || (v.err == nil && !v.ok) || (v.err != nil && (v.ok || !k.Private)) {
			add([]cond{{"reference-signature-not-accepted", fmt.Sprintf("a signature made by the standard library with the matching private key: %s", v)}})
		}
	} else if v.pan != nil || v.ok {
		add([]cond{{"signature-of-another-key-accepted", fmt.Sprintf("signed by %s: %s", signer, v)}})
	}
	return s.out
}

// ---------------------------------------------------------------------------
// a genuine RSA signature whose first octet is 0x00

// zeroSigDigest[alg] is the index i >= zeroSearchFrom of the first digest
// digest(i, hashLen) whose reference signature (key A, constant-stream
// randomness) starts with a zero octet; -1 if none among zeroSearchTries. An
// RSA signature is an octet string of exactly the modulus size (RFC 8017
// 8.1.2 / 8.2.2 step 1): such a signature with that octet removed is a
// different, shorter string and must be rejected - an implementation that
// left-pads short signatures accepts it.
var (
	zeroSigDigest   = map[string]int{}
	zeroSigMu       sync.Mutex
	zeroSearchFrom  = 100
	zeroSearchTries = 6000
)

func findZeroSignatures(algs []*algInfo) {
	var wg sync.WaitGroup
	for _, a := range algs {
		if !(a.Known && a.ListedSig) || (a.Ref.Class != cryptoref.SigRSAPKCS1 && a.Ref.Class != cryptoref.SigRSAPSS) {
			continue
		}
		a := a
		wg.Add(1)
		go func() {
			defer wg.Done()
			priv := cryptokeys.Asym(cryptokeys.RSAPriv, "A")
			found := -1
			for i := zeroSearchFrom; i < zeroSearchFrom+zeroSearchTries; i++ {
				s, err := cryptoref.Sign(a.Ref, priv.RSA, digest(i, a.Ref.Hash.Size()))
				if err == nil && s[0] == 0 {
					found = i
					break
				}
			}
			zeroSigMu.Lock()
			zeroSigDigest[a.Name] = found
			zeroSigMu.Unlock()
		}()
	}
	wg.Wait()
}
