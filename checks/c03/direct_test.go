package c03

import (
	"bytes"
	"crypto/aes"
	"crypto/cipher"
	"crypto/sha256"
	"crypto/sha512"
	"fmt"
	"hash"
	"strconv"

	"github.com/dapr/kit/crypto/aescbcaead"
	"github.com/dapr/kit/crypto/aeskw"

	"verif/ref/cryptokeys"
	"verif/ref/cryptoref"
)

// ---------------------------------------------------------------------------
// kw: aeskw.Wrap / aeskw.Unwrap directly, every KEK size x every length

var kwAlg = &algInfo{Name: "RFC3394", Known: true, Ref: cryptoref.Alg{Name: "RFC3394", Class: cryptoref.KW}}

func callWrap(blk cipher.Block, p []byte) (o res) {
	defer func() {
		if x := recover(); x != nil {
			o = res{pan: x}
		}
	}()
	o.a, o.err = aeskw.Wrap(blk, p)
	return o
}

func callUnwrap(blk cipher.Block, c []byte) (o res) {
	defer func() {
		if x := recover(); x != nil {
			o = res{pan: x}
		}
	}()
	o.a, o.err = aeskw.Unwrap(blk, c)
	return o
}

// kwLenCond makes the two impossible short lengths separate findings: empty
// key data (whose "wrapping" cannot be unwrapped at all) and a single block
// (RFC 3394 §2: n must be at least two).
func kwLenCond(cs []cond, n int) []cond {
	for i := range cs {
		if cs[i].name == "invalid-input-accepted:plaintext-length" {
			cs[i].name += "=" + strconv.Itoa(n)
		}
	}
	return cs
}

func (e *env) evalKW(c Case) []finding {
	kek := cryptokeys.Bytes("oct-master-key", c.KSize)
	blk, err := aes.NewCipher(kek)
	if err != nil {
		return []finding{{"machinery/aes.NewCipher", err.Error()}}
	}
	var s sink
	what := fmt.Sprintf("KEK=%d bytes key data=%d bytes", c.KSize, c.PT)
	p := pt(c.PT)
	if c.Mut == nil {
		o := callWrap(blk, p)
		var present cryptoref.Fault
		if c.PT%8 != 0 || c.PT/8 < cryptoref.KWMinBlocks {
			present = cryptoref.FaultPlaintextLen
		}
		var cs []cond
		if present != 0 {
			e.st[stRejected]++
		} else {
			e.st[stRoundTrip]++
			e.st[stRefOpensKit]++
			e.st[stKitOpensRef]++
		}
		if present != 0 {
			cs = kwLenCond(judgeFaulty(present, 0, o), c.PT)
			if o.err == nil && o.pan == nil {
				// what happens to such an output on the way back
				u := callUnwrap(blk, clip(o.a))
				cs[0].msg += fmt.Sprintf("; aeskw.Unwrap of that output: %s", u)
			}
		} else {
			if o.pan != nil || o.err != nil {
				cs = append(cs, rejectedCond(kwAlg, o))
			} else {
				back, err := cryptoref.KWUnwrap(kek, o.a)
				if err != nil || !bytes.Equal(back, p) {
					rc, _ := cryptoref.KWWrap(kek, p)
					cs = append(cs, cond{"output-not-opened-by-reference", fmt.Sprintf("output %s does not unwrap under the RFC 3394 reference (%v); the reference produces %s", hx(o.a), err, hx(rc))})
				}
				if u := callUnwrap(blk, clip(o.a)); u.pan != nil || u.err != nil || !bytes.Equal(u.a, p) {
					cs = append(cs, cond{"roundtrip-failed", fmt.Sprintf("Unwrap(Wrap(p)) = %s, want %s", u, hx(p))})
				}
			}
			rc, err := cryptoref.KWWrap(kek, p)
			if err != nil {
				return []finding{{"machinery/reference-wrap-failed", err.Error()}}
			}
			if u := callUnwrap(blk, clip(rc)); u.pan != nil || u.err != nil || !bytes.Equal(u.a, p) {
				s.add("aeskw.Unwrap/KW/reference-output-not-opened", "aeskw.Unwrap %s: the reference's wrapping %s unwraps to %s, want %s", what, hx(rc), u, hx(p))
			}
		}
		for _, cd := range cs {
			s.add(keyFor("aeskw.Wrap", kwAlg, cd), "aeskw.Wrap %s: %s", what, cd.msg)
		}
		return s.out
	}
	rc, err := cryptoref.KWWrap(kek, p)
	if err != nil {
		return []finding{{"machinery/reference-wrap-failed", err.Error()}}
	}
	mc := rc
	if c.Mut.Comp == "integrity-value" {
		if mc, err = wrapWithMutatedIV(kek, p, c.Mut); err != nil {
			return []finding{{"machinery/reference-wrap-failed", err.Error()}}
		}
	} else {
		mc = c.Mut.apply(rc)
	}
	e.st[stMutation]++
	for _, cd := range judgeMutated(callUnwrap(blk, clip(mc)), p) {
		if cd.name == "" {
			cd.name = "modified-" + c.Mut.Comp + "-accepted"
		}
		s.add(keyFor("aeskw.Unwrap", kwAlg, cd), "aeskw.Unwrap %s mutation %s: %s", what, c.Mut, cd.msg)
	}
	return s.out
}

// ---------------------------------------------------------------------------
// aead: the four constructors of aescbcaead directly

type ctorInfo struct {
	name   string
	new    func([]byte) (cipher.AEAD, error)
	params cryptoref.CBCHMACParams
}

var ctors = []ctorInfo{
	{"NewAESCBC128SHA256", aescbcaead.NewAESCBC128SHA256, cryptoref.CBCHMACParams{EncKeyLen: 16, MacKeyLen: 16, TLen: 16, Hash: sha256.New}},
	{"NewAESCBC192SHA384", aescbcaead.NewAESCBC192SHA384, cryptoref.CBCHMACParams{EncKeyLen: 24, MacKeyLen: 24, TLen: 24, Hash: sha512.New384}},
	// not a JWA algorithm: parameters from draft-mcgrew-aead-aes-cbc-hmac-sha2-05 §2.6 (AEAD_AES_256_CBC_HMAC_SHA_384)
	{"NewAESCBC256SHA384", aescbcaead.NewAESCBC256SHA384, cryptoref.CBCHMACParams{EncKeyLen: 32, MacKeyLen: 24, TLen: 24, Hash: sha512.New384}},
	{"NewAESCBC256SHA512", aescbcaead.NewAESCBC256SHA512, cryptoref.CBCHMACParams{EncKeyLen: 32, MacKeyLen: 32, TLen: 32, Hash: sha512.New}},
}

var _ func() hash.Hash = sha256.New

func ctorByName(n string) *ctorInfo {
	for i := range ctors {
		if ctors[i].name == n {
			return &ctors[i]
		}
	}
	return nil
}

var aeadAlg = &algInfo{Name: "AES_CBC_HMAC_SHA2", Known: true, Ref: cryptoref.Alg{Class: cryptoref.CBCHMAC}}

// dst variants: what the caller passes as destination.
const nDst = 5

func makeDst(v int) (dst []byte, prefix []byte) {
	pre := []byte{0xD0, 0xD1, 0xD2, 0xD3}
	switch v {
	case 0:
		return nil, nil
	case 1:
		return []byte{}, nil
	case 2:
		return clip(clone(pre)), pre
	case 3:
		d := make([]byte, 4, 4+256)
		copy(d, pre)
		return d, pre
	default:
		return make([]byte, 0, 256), nil
	}
}

func callSeal(ae cipher.AEAD, dst, n, p, ad []byte) (o res) {
	defer func() {
		if x := recover(); x != nil {
			o = res{pan: x}
		}
	}()
	o.a = ae.Seal(dst, n, p, ad)
	return o
}

func callOpen(ae cipher.AEAD, dst, n, c, ad []byte) (o res) {
	defer func() {
		if x := recover(); x != nil {
			o = res{pan: x}
		}
	}()
	o.a, o.err = ae.Open(dst, n, c, ad)
	return o
}

func (e *env) evalAEAD(c Case) []finding {
	ci := ctorByName(c.Ctor)
	key := cryptokeys.Bytes("oct-master-key", c.KSize)
	var s sink
	what := fmt.Sprintf("%s key=%d bytes plaintext=%d nonce=%d aad=%s dst-variant=%d", c.Ctor, c.KSize, c.PT, c.Nonce, hx(aads[c.AAD]), c.Dst)
	ae, err := func() (ae cipher.AEAD, err error) {
		defer func() {
			if x := recover(); x != nil {
				err = fmt.Errorf("panic %v", x)
			}
		}()
		return ci.new(clone(key))
	}()
	right := ci.params.EncKeyLen + ci.params.MacKeyLen
	if c.KSize != right {
		e.st[stRejected]++
		if err == nil {
			s.add("aescbcaead."+c.Ctor+"/CBC-HMAC/invalid-input-accepted:key", "%s: a %d-byte key was accepted (the algorithm takes %d)", what, c.KSize, right)
		} else if ae != nil {
			s.add("aescbcaead."+c.Ctor+"/CBC-HMAC/output-with-error", "%s: an AEAD was returned together with %v", what, err)
		}
		return s.out
	}
	if err != nil {
		s.add("aescbcaead."+c.Ctor+"/CBC-HMAC/valid-input-rejected", "%s: %v", what, err)
		return s.out
	}
	if ae.NonceSize() != 16 || ae.Overhead() != ci.params.TLen {
		s.add("aescbcaead."+c.Ctor+"/CBC-HMAC/wrong-parameters", "%s: NonceSize=%d Overhead=%d, want 16 and %d", what, ae.NonceSize(), ae.Overhead(), ci.params.TLen)
	}
	p, n, ad := pt(c.PT), nonce(c.Nonce), aads[c.AAD]
	add := func(site string, cd cond) {
		s.add(keyFor(site, aeadAlg, cd), "%s %s: %s", site, what, cd.msg)
	}
	if c.Mut != nil {
		e.st[stMutation]++
		rn := nonce(16)
		e, t, err := cryptoref.CBCHMACSeal(ci.params, key, rn, p, ad)
		if err != nil {
			return []finding{{"machinery/reference-seal-failed", err.Error()}}
		}
		switch c.Mut.Comp {
		case "ciphertext":
			e = c.Mut.apply(e)
		case "tag":
			t = c.Mut.apply(t)
		case "nonce":
			rn = c.Mut.apply(rn)
		case "aad":
			ad = c.Mut.apply(ad)
		}
		o := callOpen(ae, nil, rn, append(clone(e), t...), ad)
		if o.pan != nil && len(rn) != 16 {
			return nil // cipher.AEAD contract: a nonce of the wrong length may panic
		}
		for _, cd := range judgeMutated(o, p) {
			if cd.name == "" {
				cd.name = "modified-" + c.Mut.Comp + "-accepted"
			}
			cd.msg = "mutation " + c.Mut.String() + ": " + cd.msg
			add("aescbcaead.Open", cd)
		}
		return s.out
	}
	dst, prefix := makeDst(c.Dst)
	// Seal
	o := callSeal(ae, dst, n, p, ad)
	if c.Nonce != 16 {
		e.st[stRejected] += 2
	} else {
		e.st[stRoundTrip]++
		e.st[stRefOpensKit]++
		e.st[stKitOpensRef]++
	}
	if c.Nonce != 16 {
		// cipher.AEAD: "The nonce must be NonceSize() bytes long" - the
		// interface has no error result for Seal, a panic is the contract
		if o.pan == nil {
			add("aescbcaead.Seal", cond{"invalid-input-accepted:nonce", fmt.Sprintf("a %d-byte nonce was accepted, output %s", c.Nonce, hx(o.a))})
		}
	} else if o.pan != nil {
		add("aescbcaead.Seal", cond{"panic", fmt.Sprintf("valid input: panic %v", o.pan)})
	} else {
		e, t, err := cryptoref.CBCHMACSeal(ci.params, key, n, p, ad)
		if err != nil {
			return []finding{{"machinery/reference-seal-failed", err.Error()}}
		}
		if !bytes.HasPrefix(o.a, prefix) || len(o.a) < len(prefix)+ci.params.TLen {
			add("aescbcaead.Seal", cond{"dst-prefix-not-preserved", fmt.Sprintf("output %s does not start with the destination's contents %s", hx(o.a), hx(prefix))})
		} else {
			body := o.a[len(prefix):]
			ke, kt := body[:len(body)-ci.params.TLen], body[len(body)-ci.params.TLen:]
			back, err := cryptoref.CBCHMACOpen(ci.params, key, n, ke, kt, ad)
			if err != nil || !bytes.Equal(back, p) {
				add("aescbcaead.Seal", cond{"output-not-opened-by-reference", fmt.Sprintf("output (E=%s, T=%s) does not open under the RFC 7518 reference (%v); the reference produces (E=%s, T=%s)", hx(ke), hx(kt), err, hx(e), hx(t))})
			}
			d2, pre2 := makeDst(c.Dst)
			r := callOpen(ae, d2, n, clip(clone(body)), ad)
			if r.pan != nil || r.err != nil || !bytes.Equal(r.a, append(clone(pre2), p...)) {
				add("aescbcaead.Seal", cond{"roundtrip-failed", fmt.Sprintf("Open(Seal(p)) = %s, want %s", r, hx(append(clone(pre2), p...)))})
			}
		}
		// Open of the reference's output
		d3, pre3 := makeDst(c.Dst)
		r := callOpen(ae, d3, n, append(clone(e), t...), ad)
		if r.pan != nil || r.err != nil || !bytes.Equal(r.a, append(clone(pre3), p...)) {
			add("aescbcaead.Open", cond{"reference-output-not-opened", fmt.Sprintf("Open(reference E||T) = %s, want %s", r, hx(append(clone(pre3), p...)))})
		}
	}
	if c.Nonce != 16 {
		// Open with a nonce of the wrong size: error or panic, never output
		rn := nonce(16)
		e, t, _ := cryptoref.CBCHMACSeal(ci.params, key, rn, p, ad)
		d4, _ := makeDst(c.Dst)
		r := callOpen(ae, d4, n, append(clone(e), t...), ad)
		if r.pan == nil && r.err == nil {
			add("aescbcaead.Open", cond{"invalid-input-accepted:nonce", fmt.Sprintf("a %d-byte nonce was accepted, output %s", c.Nonce, hx(r.a))})
		} else if r.pan == nil && len(r.a) != 0 {
			add("aescbcaead.Open", cond{"output-with-error", fmt.Sprintf("error %v with output %s", r.err, hx(r.a))})
		}
	}
	return s.out
}
