package c03

import (
	"bytes"
	"crypto/aes"
	"crypto/cipher"
	"fmt"
	"strings"

	kit "github.com/dapr/kit/crypto"
	"github.com/dapr/kit/crypto/aescbcaead"
	"github.com/dapr/kit/crypto/aeskw"
	"github.com/lestrrat-go/jwx/v2/jwk"

	"verif/ref/cryptokeys"
	"verif/ref/cryptoref"
)

// res is what a call under test produced. For decryptions the plaintext is in a.
type res struct {
	a, b []byte // ciphertext, tag  |  plaintext, -
	err  error
	pan  any
}

func (o res) String() string {
	if o.pan != nil {
		return fmt.Sprintf("panic(%v)", o.pan)
	}
	return fmt.Sprintf("(%s, %s, err=%s)", hx(o.a), hx(o.b), errName(o.err))
}

func kitEncrypt(entry string, p []byte, alg string, k jwk.Key, n, ad []byte) (o res) {
	defer func() {
		if x := recover(); x != nil {
			o = res{pan: x}
		}
	}()
	if entry == "Encrypt" {
		o.a, o.b, o.err = kit.Encrypt(p, alg, k, n, ad)
	} else {
		o.a, o.b, o.err = kit.EncryptSymmetric(p, alg, k, n, ad)
	}
	return o
}

func kitDecrypt(entry string, ct []byte, alg string, k jwk.Key, n, tag, ad []byte) (o res) {
	defer func() {
		if x := recover(); x != nil {
			o = res{pan: x}
		}
	}()
	if entry == "Decrypt" {
		o.a, o.err = kit.Decrypt(ct, alg, k, n, tag, ad)
	} else {
		o.a, o.err = kit.DecryptSymmetric(ct, alg, k, n, tag, ad)
	}
	return o
}

// kitCBCHMAC builds kit's AEAD for a JWA name.
func kitCBCHMAC(name string, key []byte) (cipher.AEAD, error) {
	switch name {
	case "A128CBC-HS256":
		return aescbcaead.NewAESCBC128SHA256(key)
	case "A192CBC-HS384":
		return aescbcaead.NewAESCBC192SHA384(key)
	case "A256CBC-HS512":
		return aescbcaead.NewAESCBC256SHA512(key)
	}
	return nil, fmt.Errorf("no constructor for %s", name)
}

// innerEncrypt calls the package below crypto.EncryptSymmetric directly
// (aeskw.Wrap, aescbcaead Seal) when the inputs can be expressed there; it is
// used to attribute a condition to the innermost call site that shows it.
func (e *env) innerEncrypt(a *algInfo, k *cryptokeys.Key, p, n, ad []byte) (site string, o res, ok bool) {
	if k.Kind != cryptokeys.Oct {
		return "", o, false
	}
	defer func() {
		if x := recover(); x != nil {
			o = res{pan: x}
		}
	}()
	switch a.Ref.Class {
	case cryptoref.KW:
		blk, err := aes.NewCipher(k.Octets)
		if err != nil || len(k.Octets) != a.Ref.KeyLen {
			return "", o, false
		}
		o.a, o.err = aeskw.Wrap(blk, p)
		return "aeskw.Wrap", o, true
	case cryptoref.CBCHMAC:
		ae, err := kitCBCHMAC(a.Name, clone(k.Octets))
		if err != nil || len(n) != a.Ref.NonceLen {
			return "", o, false
		}
		out := ae.Seal(nil, n, p, ad)
		if len(out) < ae.Overhead() {
			return "aescbcaead.Seal", res{a: out}, true
		}
		o.a, o.b = out[:len(out)-ae.Overhead()], out[len(out)-ae.Overhead():]
		return "aescbcaead.Seal", o, true
	}
	return "", o, false
}

func (e *env) innerDecrypt(a *algInfo, k *cryptokeys.Key, ct, n, tag, ad []byte) (site string, o res, ok bool) {
	if k.Kind != cryptokeys.Oct {
		return "", o, false
	}
	defer func() {
		if x := recover(); x != nil {
			o = res{pan: x}
		}
	}()
	switch a.Ref.Class {
	case cryptoref.KW:
		blk, err := aes.NewCipher(k.Octets)
		if err != nil || len(k.Octets) != a.Ref.KeyLen || len(ct) < 16 {
			// (aeskw.Unwrap panics below 16 bytes; wrapped keys of impossible
			// sizes are C07's subject and are not fed here)
			return "", o, false
		}
		o.a, o.err = aeskw.Unwrap(blk, ct)
		return "aeskw.Unwrap", o, true
	case cryptoref.CBCHMAC:
		ae, err := kitCBCHMAC(a.Name, clone(k.Octets))
		if err != nil || len(n) != a.Ref.NonceLen || len(tag) != a.Ref.TagLen {
			return "", o, false
		}
		in := append(clone(ct), tag...)
		o.a, o.err = ae.Open(nil, n, in, ad)
		return "aescbcaead.Open", o, true
	}
	return "", o, false
}

// which names an entry point accepts, as far as the statement is concerned:
// the names the package lists as supported (and the reference implements).
func validFor(entry string, a *algInfo) bool {
	switch entry {
	case "EncryptSymmetric", "DecryptSymmetric":
		return a.ListedSym && a.Known && a.Ref.Symmetric()
	case "Encrypt", "Decrypt":
		return a.ListedSym && a.Known && a.Ref.Symmetric() || a.ListedAsym && a.Known && a.Ref.AsymEnc()
	case "EncryptPublicKey", "DecryptPrivateKey":
		return a.ListedAsym && a.Known && a.Ref.AsymEnc()
	case "SignPrivateKey", "VerifyPublicKey":
		return a.ListedSig && a.Known && a.Ref.Signature()
	}
	return false
}

// demandedSym: the faults for which consts.go clearly defines a sentinel at
// the symmetric entry points of package crypto.
func demandedSym(a *algInfo) cryptoref.Fault {
	d := cryptoref.FaultAlg | cryptoref.FaultKey | cryptoref.FaultNonce | cryptoref.FaultTag
	switch a.Ref.Class {
	case cryptoref.CBCNoPad:
		d |= cryptoref.FaultPlaintextLen | cryptoref.FaultCiphertextLen
	case cryptoref.CBCPad:
		d |= cryptoref.FaultCiphertextLen
	}
	// KW: "cek must be in 8-byte blocks" comes from package aeskw, which has no
	// sentinels: any error is accepted for a key-wrap plaintext of a wrong size.
	return d
}

// symFaults computes what is wrong with a call of a symmetric-capable entry
// point. skip is true for (RSA algorithm, RSA key) pairs through Encrypt /
// Decrypt, which belong to the asymmetric sections.
func symFaults(entry string, a *algInfo, k *cryptokeys.Key, nonceLen, dataLen, tagLen int, decrypt bool) (present cryptoref.Fault, skip bool) {
	if !validFor(entry, a) {
		present = cryptoref.FaultAlg
		if (entry == "EncryptSymmetric" || entry == "DecryptSymmetric") && k.Kind != cryptokeys.Oct {
			present |= cryptoref.FaultKey
		}
		return present, false
	}
	if a.Ref.AsymEnc() {
		if k.Family == "RSA" {
			return 0, true
		}
		return cryptoref.FaultKey, false
	}
	if decrypt {
		return cryptoref.DecryptFaults(a.Ref, symKeyLen(k), nonceLen, dataLen, tagLen), false
	}
	return cryptoref.EncryptFaults(a.Ref, symKeyLen(k), nonceLen, dataLen), false
}

type cond struct{ name, msg string }

// judge applies the oracle for a call with something wrong: an error, the
// sentinel where one is defined, and no output.
func judgeFaulty(present, demanded cryptoref.Fault, o res) []cond {
	cs := judgeFaulty0(present, demanded, o)
	out := cs[:0]
	for _, c := range cs {
		// an entry point that does not know a listed algorithm at all answers
		// ErrUnsupportedAlgorithm whatever else is wrong with the inputs: that
		// is the one defect "listed but unsupported", which the cases with
		// valid inputs report; it is not a sentinel mix-up per fault
		if present&cryptoref.FaultAlg == 0 && errName(o.err) == "ErrUnsupportedAlgorithm" && strings.HasPrefix(c.name, "wrong-sentinel") {
			continue
		}
		out = append(out, c)
	}
	return out
}

func judgeFaulty0(present, demanded cryptoref.Fault, o res) []cond {
	if o.pan != nil {
		return []cond{{"panic", fmt.Sprintf("wrong %s: panic %v", present, o.pan)}}
	}
	if o.err == nil {
		return []cond{{"invalid-input-accepted:" + present.String(), fmt.Sprintf("wrong %s, yet no error; returned %s", present, o)}}
	}
	var cs []cond
	if len(o.a)+len(o.b) != 0 {
		cs = append(cs, cond{"output-with-error", fmt.Sprintf("wrong %s: output returned together with the error: %s", present, o)})
	}
	if !sentinelOK(o.err, present, demanded) {
		cs = append(cs, cond{"wrong-sentinel:" + present.String(), fmt.Sprintf("wrong %s: error is %s, not the package sentinel for it", present, errName(o.err))})
	}
	return cs
}

func rejectedCond(a *algInfo, o res) cond {
	if o.pan != nil {
		return cond{"panic", fmt.Sprintf("valid input: panic %v", o.pan)}
	}
	if errName(o.err) == "ErrUnsupportedAlgorithm" && a.listed() {
		return cond{"listed-but-unsupported", "the package lists " + a.Name + " as supported, the call returns ErrUnsupportedAlgorithm for a key, nonce and plaintext of the right sizes"}
	}
	return cond{"valid-input-rejected", fmt.Sprintf("valid input rejected: %s", errName(o.err))}
}

func keyFor(site string, a *algInfo, c cond) string {
	if c.name == "listed-but-unsupported" {
		return site + "/" + a.class() + "-listed-but-unsupported"
	}
	return site + "/" + a.class() + "/" + c.name
}

// report attributes every condition to the innermost site of the chain that
// shows it (sites are given innermost first).
type siteConds struct {
	site  string
	conds []cond
}

func report(s *sink, a *algInfo, what string, chain []siteConds) {
	seen := map[string]bool{}
	for _, sc := range chain {
		for _, c := range sc.conds {
			if seen[c.name] {
				continue
			}
			seen[c.name] = true
			s.add(keyFor(sc.site, a, c), "%s %s: %s", sc.site, what, c.msg)
		}
	}
}

// ---------------------------------------------------------------------------
// sym-enc: Encrypt / EncryptSymmetric over the whole product

func judgeEncrypt(entry string, a *algInfo, k *cryptokeys.Key, p, n, ad []byte, o res, present cryptoref.Fault, decrypt func(ct, tag []byte) res) []cond {
	if present != 0 {
		cs := judgeFaulty(present, demandedSym(a), o)
		if a.Ref.Class == cryptoref.KW {
			cs = kwLenCond(cs, len(p))
		}
		return cs
	}
	if o.pan != nil || o.err != nil {
		return []cond{rejectedCond(a, o)}
	}
	var cs []cond
	back, err := cryptoref.Decrypt(a.Ref, k.Octets, n, o.a, o.b, ad)
	if err != nil || !bytes.Equal(back, p) {
		rc, rt, _ := cryptoref.Encrypt(a.Ref, k.Octets, n, p, ad)
		cs = append(cs, cond{"output-not-opened-by-reference", fmt.Sprintf("output %s does not open under the reference (%v, %s); the reference produces (%s, %s)", o, err, hx(back), hx(rc), hx(rt))})
	}
	if a.Ref.TagLen == 0 && len(o.b) != 0 {
		cs = append(cs, cond{"tag-from-tagless-algorithm", "a tag was returned: " + o.String()})
	}
	if decrypt != nil {
		d := decrypt(o.a, o.b)
		if d.pan != nil || d.err != nil || !bytes.Equal(d.a, p) {
			cs = append(cs, cond{"roundtrip-failed", fmt.Sprintf("decrypting the output %s gives %s, want %s", o, d, hx(p))})
		}
	}
	return cs
}

func (e *env) evalSymEnc(c Case) []finding {
	a, k := algByName[c.Alg], e.keyByID[c.Key]
	p, n, ad := pt(c.PT), nonce(c.Nonce), aads[c.AAD]
	var s sink
	var chain []siteConds
	pES, _ := symFaults("EncryptSymmetric", a, k, len(n), len(p), 0, false)
	// innermost first (only consulted when an outer site has something to report)
	oES := kitEncrypt("EncryptSymmetric", p, a.Name, k.JWK, n, ad)
	e.tally(pES, 0, a, c)
	cES := judgeEncrypt("EncryptSymmetric", a, k, p, n, ad, oES, pES, func(ct, tag []byte) res {
		return kitDecrypt("DecryptSymmetric", clip(ct), a.Name, k.JWK, n, clip(tag), ad)
	})
	pE, skip := symFaults("Encrypt", a, k, len(n), len(p), 0, false)
	var cE []cond
	if !skip {
		oE := kitEncrypt("Encrypt", p, a.Name, k.JWK, n, ad)
		e.tally(pE, 0, a, c)
		cE = judgeEncrypt("Encrypt", a, k, p, n, ad, oE, pE, func(ct, tag []byte) res {
			return kitDecrypt("Decrypt", clip(ct), a.Name, k.JWK, n, clip(tag), ad)
		})
	}
	if len(cES)+len(cE) == 0 {
		return nil
	}
	if site, oI, ok := e.innerEncrypt(a, k, p, n, ad); ok {
		// at the inner site only the plaintext length can be wrong
		pI := pES & cryptoref.FaultPlaintextLen
		if pES == pI {
			chain = append(chain, siteConds{site, judgeEncrypt(site, a, k, p, n, ad, oI, pI, nil)})
		}
	}
	chain = append(chain, siteConds{"EncryptSymmetric", cES}, siteConds{"Encrypt", cE})
	report(&s, a, fmt.Sprintf("alg=%q key=%s plaintext=%d bytes nonce=%d bytes aad=%s", a.Name, k, c.PT, c.Nonce, hx(ad)), chain)
	return s.out
}

// ---------------------------------------------------------------------------
// sym-dec: Decrypt / DecryptSymmetric over the whole product

// decInput builds the ciphertext and tag of a sym-dec case. For a supported
// symmetric algorithm it is the REFERENCE's encryption of pt(c.PT) under the
// key of the right size, the right nonce and the case's associated data (so a
// fault-free case must open to that plaintext); the tag is cut / extended to
// c.Tag bytes. ok=false when there is nothing to decrypt for this case (e.g. a
// key-wrap plaintext length RFC 3394 does not allow).
func (e *env) decInput(a *algInfo, c Case) (ct, tag, want []byte, rightKey *cryptokeys.Key, ok bool) {
	if !(a.Known && a.Ref.Symmetric()) || c.Raw {
		return resize(nil, c.PT), resize(nil, c.Tag), nil, nil, true
	}
	rightKey = e.octBySize[a.Ref.KeyLen]
	want = pt(c.PT)
	rn := nonce(a.Ref.NonceLen)
	rct, rtag, err := cryptoref.Encrypt(a.Ref, rightKey.Octets, rn, want, aads[c.AAD])
	if err != nil {
		return nil, nil, nil, nil, false
	}
	return rct, resize(rtag, c.Tag), want, rightKey, true
}

func judgeDecrypt(a *algInfo, o res, present cryptoref.Fault, want []byte) []cond {
	if present != 0 {
		return judgeFaulty(present, demandedSym(a), o)
	}
	if want == nil {
		return nil // arbitrary bytes of a plausible size: no expectation
	}
	if o.pan != nil || o.err != nil {
		c := rejectedCond(a, o)
		if c.name == "valid-input-rejected" {
			c.name = "reference-output-not-opened"
		}
		return []cond{c}
	}
	if !bytes.Equal(o.a, want) {
		return []cond{{"reference-output-not-opened", fmt.Sprintf("the reference's ciphertext opens to %s, want %s", hx(o.a), hx(want))}}
	}
	return nil
}

func (e *env) evalSymDec(c Case) []finding {
	a, k := algByName[c.Alg], e.keyByID[c.Key]
	ct, tag, want, rightKey, ok := e.decInput(a, c)
	if !ok {
		return nil
	}
	return e.evalSymDecWith(c, a, k, ct, tag, want, rightKey)
}

func (e *env) evalSymDecWith(c Case, a *algInfo, k *cryptokeys.Key, ct, tag, want []byte, rightKey *cryptokeys.Key) []finding {
	// the nonce of the case: the right nonce cut / extended to c.Nonce bytes
	n := nonce(c.Nonce)
	ad := aads[c.AAD]
	if want != nil && k != rightKey && symKeyLen(k) == a.Ref.KeyLen {
		return nil // cannot happen: one key per size
	}
	pDS, _ := symFaults("DecryptSymmetric", a, k, len(n), len(ct), len(tag), true)
	oDS := kitDecrypt("DecryptSymmetric", clip(ct), a.Name, k.JWK, n, clip(tag), ad)
	cDS := judgeDecrypt(a, oDS, pDS, want)
	if want != nil || pDS != 0 {
		e.tally(pDS, 1, a, c)
	}
	pD, skip := symFaults("Decrypt", a, k, len(n), len(ct), len(tag), true)
	var cD []cond
	if !skip {
		oD := kitDecrypt("Decrypt", clip(ct), a.Name, k.JWK, n, clip(tag), ad)
		cD = judgeDecrypt(a, oD, pD, want)
		if want != nil || pD != 0 {
			e.tally(pD, 1, a, c)
		}
	}
	if len(cDS)+len(cD) == 0 {
		return nil
	}
	var chain []siteConds
	if pDS == 0 {
		if site, oI, ok := e.innerDecrypt(a, k, ct, n, tag, ad); ok {
			chain = append(chain, siteConds{site, judgeDecrypt(a, oI, 0, want)})
		}
	}
	chain = append(chain, siteConds{"DecryptSymmetric", cDS}, siteConds{"Decrypt", cD})
	var s sink
	report(&s, a, fmt.Sprintf("alg=%q key=%s ciphertext=%d bytes (plaintext %d, raw=%v) nonce=%d bytes tag=%d bytes aad=%s", a.Name, k, len(ct), c.PT, c.Raw, c.Nonce, c.Tag, hx(ad)), chain)
	return s.out
}

// ---------------------------------------------------------------------------
// sym-mut: every single-byte change of ciphertext / tag / nonce / associated
// data / wrapped key is rejected

// mutLens are the three plaintext lengths per algorithm.
func mutLens(a *algInfo) []int {
	if a.Ref.Class == cryptoref.KW {
		return []int{16, 24, 40}
	}
	return []int{0, 17, 32}
}

// mutations of a component of n bytes: every position x every non-zero xor
// value, plus dropping the last byte and appending one.
func eachMutation(comp string, n int, vals []byte, fn func(m Mut)) {
	for pos := 0; pos < n; pos++ {
		for _, v := range vals {
			fn(Mut{Comp: comp, Op: "xor", Pos: pos, Val: v})
		}
	}
	if n > 0 {
		fn(Mut{Comp: comp, Op: "drop-last"})
	}
	fn(Mut{Comp: comp, Op: "append", Val: 0x00})
	fn(Mut{Comp: comp, Op: "append", Val: 0xA7})
}

func eachXor(comp string, n int, vals []byte, fn func(m Mut)) {
	for pos := 0; pos < n; pos++ {
		for _, v := range vals {
			fn(Mut{Comp: comp, Op: "xor", Pos: pos, Val: v})
		}
	}
}

var allXor = func() []byte {
	v := make([]byte, 0, 255)
	for i := 1; i < 256; i++ {
		v = append(v, byte(i))
	}
	return v
}()

func judgeMutated(o res, want []byte) []cond {
	if o.pan != nil {
		return []cond{{"panic", fmt.Sprintf("panic %v", o.pan)}}
	}
	if o.err == nil {
		return []cond{{"", fmt.Sprintf("accepted, returned %s (original plaintext %s)", hx(o.a), hx(want))}}
	}
	if len(o.a) != 0 {
		return []cond{{"output-with-error", fmt.Sprintf("rejected (%s) but output returned: %s", errName(o.err), hx(o.a))}}
	}
	return nil
}

func (e *env) evalSymMut(c Case) []finding {
	a := algByName[c.Alg]
	k := e.octBySize[a.Ref.KeyLen]
	want := pt(c.PT)
	n := nonce(a.Ref.NonceLen)
	ad := aads[c.AAD]
	ct, tag, err := cryptoref.Encrypt(a.Ref, k.Octets, n, want, ad)
	if err != nil {
		return []finding{{"machinery/reference-encrypt-failed", err.Error()}}
	}
	m := c.Mut
	switch m.Comp {
	case "integrity-value":
		ct, err = wrapWithMutatedIV(k.Octets, want, m)
		if err != nil {
			return []finding{{"machinery/reference-encrypt-failed", err.Error()}}
		}
	case "ciphertext", "wrapped-key":
		ct = m.apply(ct)
	case "tag":
		tag = m.apply(tag)
	case "nonce":
		n = m.apply(n)
	case "aad":
		ad = m.apply(ad)
	}
	name := func(cs []cond) []cond {
		for i := range cs {
			if cs[i].name == "" {
				cs[i].name = "modified-" + m.Comp + "-accepted"
			}
		}
		return cs
	}
	e.st[stMutation] += 2
	cDS := name(judgeMutated(kitDecrypt("DecryptSymmetric", clip(ct), a.Name, k.JWK, clip(n), clip(tag), clip(ad)), want))
	cD := name(judgeMutated(kitDecrypt("Decrypt", clip(ct), a.Name, k.JWK, clip(n), clip(tag), clip(ad)), want))
	if len(cDS)+len(cD) == 0 {
		return nil
	}
	var chain []siteConds
	if site, oI, ok := e.innerDecrypt(a, k, ct, n, tag, ad); ok {
		chain = append(chain, siteConds{site, name(judgeMutated(oI, want))})
	}
	chain = append(chain, siteConds{"DecryptSymmetric", cDS}, siteConds{"Decrypt", cD})
	var s sink
	report(&s, a, fmt.Sprintf("alg=%q plaintext=%d bytes aad=%s mutation %s", a.Name, c.PT, hx(aads[c.AAD]), m), chain)
	return s.out
}

// tally counts which oracle a call went through (dir 0 = encrypt: round trip
// and reference-opens-kit; dir 1 = decrypt: kit-opens-reference).
func (e *env) tally(present cryptoref.Fault, dir int, a *algInfo, c Case) {
	if present != 0 {
		e.st[stRejected]++
		return
	}
	if dir == 0 {
		e.st[stRoundTrip]++
		e.st[stRefOpensKit]++
	} else {
		e.st[stKitOpensRef]++
	}
	if a.Known && a.Ref.Symmetric() && (a.Ref.NonceLen == 0 && c.Nonce != 0 || !a.Ref.AAD && c.AAD != 0 || dir == 1 && a.Ref.TagLen == 0 && c.Tag != 0) {
		e.st[stIgnoredArg]++
	}
}

// wrapWithMutatedIV is the reference's RFC 3394 wrapping with an initial value
// that differs from the default A6A6A6A6A6A6A6A6 as the mutation says (§2.2.3.2
// allows alternative initial values; a receiver expecting the default must
// reject them - this is the one way to present an integrity value that is off
// by a single byte).
func wrapWithMutatedIV(kek, p []byte, m *Mut) ([]byte, error) {
	iv := cryptoref.KWDefaultIV()
	var a [8]byte
	copy(a[:], m.apply(iv[:]))
	return cryptoref.KWWrapIV(kek, p, a)
}
