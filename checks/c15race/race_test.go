// Supplementary part of C15: concurrent Set/Get/Delete/Cleanup on the REAL
// cache (real haxmap, real clock) in a -race build, using only the public API —
// so it builds whatever the private representation of entries is. It samples
// schedules; it is evidence next to the explorer, not the deciding step.
package c15race

import (
	"fmt"
	"sync"
	"testing"

	"github.com/dapr/kit/ttlcache"

	"verif/enumx"
)

type val struct {
	key string
	seq int
	pad [256]byte // a multi-word value: a torn update shows up as an inconsistent struct
}

func mk(key string, seq int) val {
	v := val{key: key, seq: seq}
	for i := range v.pad {
		v.pad[i] = byte(seq)
	}
	return v
}

func consistent(v val) bool {
	for _, b := range v.pad {
		if b != byte(v.seq) {
			return false
		}
	}
	return true
}

func TestCheck(t *testing.T) {
	enumx.Main(t, "C15", "race-sampling", func(r *enumx.Run, replay *enumx.ReplayCase) {
		r.Rule("SUPPLEMENTARY, sampling: several goroutines Set (long TTL), Get, Delete and Cleanup the same few keys of a real cache in a -race build; every hit must be a value some Set wrote for that key, internally consistent, and the race detector must stay quiet. Not exhaustive and not the deciding step for C15.")
		r.Assume("the Go race detector reports only races that actually occur in the sampled schedules")
		rounds := 40
		if r.Thorough() {
			rounds = 400
		}
		keys := []string{"a", "b", "c"}
		for round := 0; round < rounds && !r.Expired(); round++ {
			c := ttlcache.NewCache[val](ttlcache.CacheOptions{})
			var wg sync.WaitGroup
			errs := make(chan string, 64)
			for g := 0; g < 6; g++ {
				g := g
				wg.Add(1)
				go func() {
					defer wg.Done()
					defer func() {
						if p := recover(); p != nil {
							errs <- fmt.Sprintf("panic: %v", p)
						}
					}()
					for i := 0; i < 300; i++ {
						k := keys[(g+i)%len(keys)]
						switch (g + i) % 5 {
						case 0, 1:
							c.Set(k, mk(k, g*1000+i), 3600)
						case 2, 3:
							if v, ok := c.Get(k); ok {
								if v.key != k || !consistent(v) {
									errs <- fmt.Sprintf("Get(%s) returned a value no Set wrote (key %q, seq %d, consistent=%v)", k, v.key, v.seq, consistent(v))
									return
								}
							}
						case 4:
							if i%50 == 0 {
								c.Cleanup()
							} else if i%7 == 0 {
								c.Delete(k)
							}
						}
					}
				}()
			}
			wg.Wait()
			c.Stop()
			close(errs)
			for e := range errs {
				r.Violation("concurrent-use-broke-an-entry", e, map[string]any{"round": round})
			}
			r.Count(6*300, 6*300)
		}
		r.Sample(map[string]any{"goroutines": 6, "operations_each": 300, "rounds": rounds})
		r.Incomplete("sampling of schedules on the real runtime is never exhaustive (supplementary evidence)")
	})
}
