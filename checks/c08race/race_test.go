// Supplementary part of C08: the "free of data races" clause cannot be decided
// by the explorer (it assumes sequential consistency and sees only
// synchronisation operations). This part runs independent operations side by
// side on the REAL runtime in a -race build and reports whatever the race
// detector sees. It samples schedules; it is evidence, not the deciding step.
package c08race

import (
	"bytes"
	"crypto/rand"
	"crypto/rsa"
	"crypto/sha256"
	"fmt"
	"io"
	"sync"
	"testing"

	"github.com/dapr/kit/byteslicepool"
	"github.com/dapr/kit/cron"
	kitcrypto "github.com/dapr/kit/crypto"
	"github.com/dapr/kit/logger"
	encv1 "github.com/dapr/kit/schemes/enc/v1"
	"github.com/lestrrat-go/jwx/v2/jwk"

	"verif/enumx"
)

func xor(b []byte, p byte) []byte {
	o := make([]byte, len(b))
	for i := range b {
		o[i] = b[i] ^ p
	}
	return o
}

func pipeline(id int, msg []byte) error {
	p := byte(id*7 + 1)
	c := encv1.CipherAESGCM
	if id%2 == 1 {
		c = encv1.CipherChaCha20Poly1305
	}
	r, err := encv1.Encrypt(bytes.NewReader(msg), encv1.EncryptOptions{
		WrapKeyFn: func(k []byte, _, _ string, _ []byte) ([]byte, []byte, error) { return xor(k, p), nil, nil },
		KeyName:   fmt.Sprint("k", id), Algorithm: encv1.KeyAlgorithmAES256KW, Cipher: &c,
	})
	if err != nil {
		return err
	}
	doc, err := io.ReadAll(r)
	if err != nil {
		return err
	}
	d, err := encv1.Decrypt(bytes.NewReader(doc), encv1.DecryptOptions{
		UnwrapKeyFn: func(w []byte, _, _ string, _, _ []byte) ([]byte, error) { return xor(w, p), nil },
	})
	if err != nil {
		return err
	}
	out, err := io.ReadAll(d)
	if err != nil {
		return err
	}
	if !bytes.Equal(out, msg) {
		return fmt.Errorf("pipeline %d: wrong plaintext", id)
	}
	return nil
}

// ---- crypto calls with separate keys and messages ----

var rsaKeys = func() []jwk.Key {
	var out []jwk.Key
	for i := 0; i < 3; i++ {
		k, err := rsa.GenerateKey(rand.Reader, 2048)
		if err != nil {
			panic(err)
		}
		j, err := jwk.FromRaw(k)
		if err != nil {
			panic(err)
		}
		out = append(out, j)
	}
	return out
}()

func cryptoCalls(id int) error {
	msg := bytes.Repeat([]byte{byte(id)}, 20+id)
	priv := rsaKeys[id%len(rsaKeys)]
	pub, err := priv.PublicKey()
	if err != nil {
		return err
	}
	for _, alg := range []string{"RSA-OAEP", "RSA-OAEP-256", "RSA1_5"} {
		ct, err := kitcrypto.EncryptPublicKey(msg, alg, pub, nil)
		if err != nil {
			return fmt.Errorf("%s encrypt: %w", alg, err)
		}
		pt, err := kitcrypto.DecryptPrivateKey(ct, alg, priv, nil)
		if err != nil {
			return fmt.Errorf("%s decrypt of a valid ciphertext: %w", alg, err)
		}
		if !bytes.Equal(pt, msg) {
			return fmt.Errorf("%s round trip gave another caller's bytes", alg)
		}
	}
	digest := sha256.Sum256(msg)
	for _, alg := range []string{"PS256", "RS256"} {
		sig, err := kitcrypto.SignPrivateKey(digest[:], alg, priv)
		if err != nil {
			return fmt.Errorf("%s sign: %w", alg, err)
		}
		ok, err := kitcrypto.VerifyPublicKey(digest[:], sig, alg, pub)
		if err != nil || !ok {
			return fmt.Errorf("%s verify of a valid signature: %v %v", alg, ok, err)
		}
	}
	key := bytes.Repeat([]byte{byte(id + 1)}, 32)
	symKey, err := jwk.FromRaw(key)
	if err != nil {
		return err
	}
	nonce := bytes.Repeat([]byte{byte(id)}, 12)
	ct, tag, err := kitcrypto.EncryptSymmetric(msg, "A256GCM", symKey, nonce, nil)
	if err != nil {
		return err
	}
	pt, err := kitcrypto.DecryptSymmetric(ct, "A256GCM", symKey, nonce, tag, nil)
	if err != nil || !bytes.Equal(pt, msg) {
		return fmt.Errorf("A256GCM round trip: %v", err)
	}
	return nil
}

func TestCheck(t *testing.T) {
	enumx.Main(t, "C08", "race-sampling", func(r *enumx.Run, replay *enumx.ReplayCase) {
		r.Rule("SUPPLEMENTARY, sampling: independent enc/v1 pipelines (two ciphers, sizes around one segment), crypto calls with separate keys and messages (RSA-OAEP/PKCS1 encryption, PSS/PKCS1 signatures, AES-GCM), cron ParseStandard calls, logger look-ups and byte-slice-pool cycles run side by side on the real runtime in a -race build; every pipeline must still round-trip and the race detector must stay quiet. Not exhaustive and not the deciding step for C08.")
		r.Assume("the Go race detector reports only races that actually occur in the sampled schedules")
		rounds := 60
		if r.Thorough() {
			rounds = 600
		}
		sizes := []int{0, 1, 100, 65535, 65536, 65537, 140000}
		pools := []*byteslicepool.ByteSlicePool{byteslicepool.NewByteSlicePool(16), byteslicepool.NewByteSlicePool(16)}
		for round := 0; round < rounds && !r.Expired(); round++ {
			var wg sync.WaitGroup
			errs := make(chan error, 64)
			for g := 0; g < 8; g++ {
				g := g
				wg.Add(1)
				go func() {
					defer wg.Done()
					defer func() {
						if p := recover(); p != nil {
							errs <- fmt.Errorf("an enc/v1 pipeline panicked when run side by side: %v", p)
						}
					}()
					msg := bytes.Repeat([]byte{byte('a' + g)}, sizes[(g+round)%len(sizes)])
					if err := pipeline(g, msg); err != nil {
						errs <- err
					}
				}()
			}
			if round%4 == 0 {
				for g := 0; g < 6; g++ {
					g := g
					wg.Add(1)
					go func() {
						defer wg.Done()
						defer func() {
							if p := recover(); p != nil {
								errs <- fmt.Errorf("crypto calls with separate keys panicked when run side by side: %v", p)
							}
						}()
						if err := cryptoCalls(g); err != nil {
							errs <- err
						}
					}()
				}
			}
			for g := 0; g < 4; g++ {
				g := g
				wg.Add(1)
				go func() {
					defer wg.Done()
					if _, err := cron.ParseStandard(fmt.Sprintf("*/%d * * * *", g+2)); err != nil {
						errs <- err
					}
					l1, l2 := logger.NewLogger(fmt.Sprint("race-", round%3)), logger.NewLogger(fmt.Sprint("race-", round%3))
					if l1 != l2 {
						errs <- fmt.Errorf("two look-ups of one logger name gave different instances")
					}
					b := pools[g%2].Get(16)
					b = append(b, byte(g))
					pools[g%2].Put(b)
				}()
			}
			wg.Wait()
			close(errs)
			for err := range errs {
				r.Violation("independent-operation-failed-in-parallel", err.Error(), map[string]any{"round": round})
			}
			r.Count(12, 12)
		}
		r.Sample(map[string]any{"goroutines_per_round": 12, "rounds": rounds, "message_sizes": sizes})
		r.Incomplete("sampling of schedules on the real runtime is never exhaustive (supplementary evidence)")
	})
}
