// Supplementary part of C08: the "free of data races" clause cannot be decided
// by the explorer (it assumes sequential consistency and sees only
// synchronisation operations). This part runs independent operations side by
// side on the REAL runtime in a -race build and reports whatever the race
// detector sees. It samples schedules; it is evidence, not the deciding step.
package c08race

import (
	"bytes"
	"crypto/rand"
	"crypto/rsa"
	"crypto/sha256"
	"fmt"
	"io"
	"runtime"
	"strings"
	"sync"
	"testing"

	"github.com/dapr/kit/byteslicepool"
	"github.com/dapr/kit/cron"
	kitcrypto "github.com/dapr/kit/crypto"
	"github.com/dapr/kit/logger"
	encv1 "github.com/dapr/kit/schemes/enc/v1"
	"github.com/lestrrat-go/jwx/v2/jwk"

	"verif/enumx"
)

func xor(b []byte, p byte) []byte {
	o := make([]byte, len(b))
	for i := range b {
		o[i] = b[i] ^ p
	}
	return o
}

func pipeline(id int, msg []byte) error {
	p := byte(id*7 + 1)
	c := encv1.CipherAESGCM
	if id%2 == 1 {
		c = encv1.CipherChaCha20Poly1305
	}
	r, err := encv1.Encrypt(bytes.NewReader(msg), encv1.EncryptOptions{
		WrapKeyFn: func(k []byte, _, _ string, _ []byte) ([]byte, []byte, error) { return xor(k, p), nil, nil },
		KeyName:   fmt.Sprint("k", id), Algorithm: encv1.KeyAlgorithmAES256KW, Cipher: &c,
	})
	if err != nil {
		return err
	}
	doc, err := io.ReadAll(r)
	if err != nil {
		return err
	}
	d, err := encv1.Decrypt(bytes.NewReader(doc), encv1.DecryptOptions{
		UnwrapKeyFn: func(w []byte, _, _ string, _, _ []byte) ([]byte, error) { return xor(w, p), nil },
	})
	if err != nil {
		return err
	}
	out, err := io.ReadAll(d)
	if err != nil {
		return err
	}
	if !bytes.Equal(out, msg) {
		return fmt.Errorf("pipeline %d: wrong plaintext", id)
	}
	return nil
}

// ---- crypto calls with separate keys and messages ----

var rsaKeys = func() []jwk.Key {
	var out []jwk.Key
	for i := 0; i < 3; i++ {
		k, err := rsa.GenerateKey(rand.Reader, 2048)
		if err != nil {
			panic(err)
		}
		j, err := jwk.FromRaw(k)
		if err != nil {
			panic(err)
		}
		out = append(out, j)
	}
	return out
}()

func cryptoCalls(id int) error {
	msg := bytes.Repeat([]byte{byte(id)}, 20+id)
	priv := rsaKeys[id%len(rsaKeys)]
	pub, err := priv.PublicKey()
	if err != nil {
		return err
	}
	for _, alg := range []string{"RSA-OAEP", "RSA-OAEP-256", "RSA1_5"} {
		ct, err := kitcrypto.EncryptPublicKey(msg, alg, pub, nil)
		if err != nil {
			return fmt.Errorf("%s encrypt: %w", alg, err)
		}
		pt, err := kitcrypto.DecryptPrivateKey(ct, alg, priv, nil)
		if err != nil {
			return fmt.Errorf("%s decrypt of a valid ciphertext: %w", alg, err)
		}
		if !bytes.Equal(pt, msg) {
			return fmt.Errorf("%s round trip gave another caller's bytes", alg)
		}
	}
	digest := sha256.Sum256(msg)
	for _, alg := range []string{"PS256", "RS256"} {
		sig, err := kitcrypto.SignPrivateKey(digest[:], alg, priv)
		if err != nil {
			return fmt.Errorf("%s sign: %w", alg, err)
		}
		ok, err := kitcrypto.VerifyPublicKey(digest[:], sig, alg, pub)
		if err != nil || !ok {
			return fmt.Errorf("%s verify of a valid signature: %v %v", alg, ok, err)
		}
	}
	key := bytes.Repeat([]byte{byte(id + 1)}, 32)
	symKey, err := jwk.FromRaw(key)
	if err != nil {
		return err
	}
	nonce := bytes.Repeat([]byte{byte(id)}, 12)
	ct, tag, err := kitcrypto.EncryptSymmetric(msg, "A256GCM", symKey, nonce, nil)
	if err != nil {
		return err
	}
	pt, err := kitcrypto.DecryptSymmetric(ct, "A256GCM", symKey, nonce, tag, nil)
	if err != nil || !bytes.Equal(pt, msg) {
		return fmt.Errorf("A256GCM round trip: %v", err)
	}
	return nil
}

// framedMessages: separate messages under separate keys that sit back to back
// in ONE receive buffer (each ciphertext slice has the next frame as spare
// capacity) are decrypted by separate goroutines at the same time, with every
// symmetric AEAD / CBC algorithm; each must decrypt as it does alone and the
// frames must be left as they were.
func framedMessages(round int) error {
	algs := []struct {
		name  string
		key   int
		nonce int
	}{{"A256GCM", 32, 12}, {"C20P", 32, 12}, {"XC20P", 32, 24}, {"A128CBC-HS256", 32, 16}, {"A256CBC", 32, 16}}
	for _, a := range algs {
		const n = 3
		type frame struct {
			key        jwk.Key
			nonce, tag []byte
			off, ln    int
			msg        []byte
		}
		var frames []frame
		var buf []byte
		for i := 0; i < n; i++ {
			k, err := jwk.FromRaw(bytes.Repeat([]byte{byte(17*i + round + 1)}, a.key))
			if err != nil {
				return err
			}
			msg := bytes.Repeat([]byte{byte('A' + i)}, 32+16*i)
			nonce := bytes.Repeat([]byte{byte(i + 1)}, a.nonce)
			ct, tag, err := kitcrypto.EncryptSymmetric(msg, a.name, k, nonce, nil)
			if err != nil {
				return fmt.Errorf("%s encrypt: %w", a.name, err)
			}
			frames = append(frames, frame{k, nonce, tag, len(buf), len(ct), msg})
			buf = append(buf, ct...)
		}
		buf = append(buf, make([]byte, 64)...) // room behind the last frame too
		orig := append([]byte{}, buf...)
		var wg sync.WaitGroup
		errs := make([]error, n)
		for i, f := range frames {
			i, f := i, f
			wg.Add(1)
			go func() {
				defer wg.Done()
				pt, err := kitcrypto.DecryptSymmetric(buf[f.off:f.off+f.ln], a.name, f.key, f.nonce, f.tag, nil)
				if err != nil {
					errs[i] = fmt.Errorf("%s: frame %d of a shared receive buffer does not decrypt next to its neighbours: %w", a.name, i, err)
				} else if !bytes.Equal(pt, f.msg) {
					errs[i] = fmt.Errorf("%s: frame %d of a shared receive buffer decrypts to other bytes next to its neighbours", a.name, i)
				}
			}()
		}
		wg.Wait()
		for _, e := range errs {
			if e != nil {
				return e
			}
		}
		if !bytes.Equal(buf, orig) {
			return fmt.Errorf("%s: decrypting the frames of a shared receive buffer changed the buffer", a.name)
		}
	}
	return nil
}

// slowPrintf is the destination of one cron logger: it formats the line a
// little later than it was handed the arguments (a slow sink), so that a
// logger that lends out pooled argument lists is caught re-using them.
type slowPrintf struct {
	mu    sync.Mutex
	lines []string
}

func (p *slowPrintf) Printf(format string, args ...interface{}) {
	runtime.Gosched()
	l := fmt.Sprintf(format, args...)
	p.mu.Lock()
	p.lines = append(p.lines, l)
	p.mu.Unlock()
}

// cronLoggers: independent cron loggers (each with its own destination) log
// lines with their own keys and values at the same time; every line must be
// the one the same call produces alone.
func cronLoggers(g int) error {
	dst := &slowPrintf{}
	lg := cron.VerbosePrintfLogger(dst)
	ref := &slowPrintf{}
	want := cron.VerbosePrintfLogger(ref)
	for k := 0; k < 8; k++ {
		job, why := fmt.Sprintf("job-%d-%d", g, k), fmt.Errorf("net %d is down", g)
		lg.Info("run", "job", job, "attempt", k)
		lg.Error(why, "failed", "job", job)
	}
	// the same calls alone (sequentially, afterwards: the pool state then cannot matter)
	_ = want
	for k := 0; k < 8; k++ {
		job := fmt.Sprintf("job-%d-%d", g, k)
		wantInfo := fmt.Sprintf("job=%s, attempt=%d", job, k)
		wantErr := fmt.Sprintf("error=net %d is down, job=%s", g, job)
		if !strings.Contains(dst.lines[2*k], wantInfo) || !strings.Contains(dst.lines[2*k+1], wantErr) {
			return fmt.Errorf("an independent cron logger wrote %q / %q next to other loggers; alone the same calls carry %q / %q", dst.lines[2*k], dst.lines[2*k+1], wantInfo, wantErr)
		}
	}
	return nil
}

// lineBuf is a goroutine's own log destination.
type lineBuf struct {
	mu sync.Mutex
	b  bytes.Buffer
}

func (w *lineBuf) Write(p []byte) (int, error) {
	w.mu.Lock()
	defer w.mu.Unlock()
	return w.b.Write(p)
}
func (w *lineBuf) String() string { w.mu.Lock(); defer w.mu.Unlock(); return w.b.String() }

func TestCheck(t *testing.T) {
	enumx.Main(t, "C08", "race-sampling", func(r *enumx.Run, replay *enumx.ReplayCase) {
		r.Rule("SUPPLEMENTARY, sampling: independent enc/v1 pipelines (two ciphers, sizes around one segment), crypto calls with separate keys and messages (RSA-OAEP/PKCS1 encryption, PSS/PKCS1 signatures, AES-GCM; separate messages framed back to back in one receive buffer and decrypted at the same time with GCM, ChaCha20-Poly1305, XChaCha20-Poly1305, CBC-HMAC, CBC), cron ParseStandard calls, independent cron printf-loggers with slow destinations, ApplyOptionsToLoggers next to registrations, logger look-ups (also of one brand-new name by several goroutines at once, each logging a line at once) and byte-slice-pool cycles run side by side on the real runtime in a -race build; every pipeline must still round-trip and the race detector must stay quiet. Not exhaustive and not the deciding step for C08.")
		r.Assume("the Go race detector reports only races that actually occur in the sampled schedules")
		rounds := 60
		if r.Thorough() {
			rounds = 600
		}
		sizes := []int{0, 1, 100, 65535, 65536, 65537, 140000}
		pools := []*byteslicepool.ByteSlicePool{byteslicepool.NewByteSlicePool(16), byteslicepool.NewByteSlicePool(16)}
		for round := 0; round < rounds && !r.Expired(); round++ {
			var wg sync.WaitGroup
			errs := make(chan error, 64)
			roundBuf := &lineBuf{}
			for g := 0; g < 8; g++ {
				g := g
				wg.Add(1)
				go func() {
					defer wg.Done()
					defer func() {
						if p := recover(); p != nil {
							errs <- fmt.Errorf("an enc/v1 pipeline panicked when run side by side: %v", p)
						}
					}()
					msg := bytes.Repeat([]byte{byte('a' + g)}, sizes[(g+round)%len(sizes)])
					if err := pipeline(g, msg); err != nil {
						errs <- err
					}
				}()
			}
			if round%4 == 1 {
				wg.Add(1)
				go func() {
					defer wg.Done()
					if err := framedMessages(round); err != nil {
						errs <- err
					}
				}()
			}
			if round%4 == 0 {
				for g := 0; g < 6; g++ {
					g := g
					wg.Add(1)
					go func() {
						defer wg.Done()
						defer func() {
							if p := recover(); p != nil {
								errs <- fmt.Errorf("crypto calls with separate keys panicked when run side by side: %v", p)
							}
						}()
						if err := cryptoCalls(g); err != nil {
							errs <- err
						}
					}()
				}
			}
			// the process-wide logger options are applied while brand-new loggers
			// register (a phase of its own: applying options to a logger that is
			// logging at that moment is not an operation on independent objects)
			{
				var wa sync.WaitGroup
				wa.Add(1)
				go func() {
					defer wa.Done()
					o := logger.DefaultOptions()
					if err := logger.ApplyOptionsToLoggers(&o); err != nil {
						errs <- err
					}
				}()
				for g := 0; g < 4; g++ {
					g := g
					wa.Add(1)
					go func() {
						defer wa.Done()
						logger.NewLogger(fmt.Sprintf("registered-during-apply-%d-%d", round, g))
					}()
				}
				wa.Wait()
			}
			for g := 0; g < 4; g++ {
				g := g
				wg.Add(1)
				go func() {
					defer wg.Done()
					if err := cronLoggers(g); err != nil {
						errs <- err
					}
				}()
			}
			for g := 0; g < 4; g++ {
				g := g
				wg.Add(1)
				go func() {
					defer wg.Done()
					if _, err := cron.ParseStandard(fmt.Sprintf("*/%d * * * *", g+2)); err != nil {
						errs <- err
					}
					l1, l2 := logger.NewLogger(fmt.Sprint("race-", round%3)), logger.NewLogger(fmt.Sprint("race-", round%3))
					if l1 != l2 {
						errs <- fmt.Errorf("two look-ups of one logger name gave different instances")
					}
					// four goroutines ask for one brand-new name at once and log through it
					// right away: every line has the fields a logger's lines have alone
					var lb lineBuf
					fresh := logger.NewLogger(fmt.Sprintf("fresh-%d-%d", round, g))
					fresh.SetOutput(&lb)
					shared := logger.NewLogger(fmt.Sprint("fresh-shared-", round))
					shared.SetOutput(roundBuf)
					shared.Info("line from goroutine ", g)
					fresh.Info("own line of goroutine ", g)
					for _, f := range []string{"scope=", "instance=", "ver=", "type=log"} {
						if !strings.Contains(lb.String(), f) {
							errs <- fmt.Errorf("a line logged through a logger just obtained from NewLogger lacks the %q field: %q", f, lb.String())
							break
						}
					}
					b := pools[g%2].Get(16)
					b = append(b, byte(g))
					pools[g%2].Put(b)
				}()
			}
			wg.Wait()
			for _, l := range strings.Split(strings.TrimSpace(roundBuf.String()), "\n") {
				for _, f := range []string{"scope=", "instance=", "ver=", "type=log"} {
					if l != "" && !strings.Contains(l, f) {
						errs <- fmt.Errorf("a line logged through a logger that several goroutines obtained at once from NewLogger lacks the %q field: %q", f, l)
						break
					}
				}
			}
			close(errs)
			for err := range errs {
				r.Violation("independent-operation-failed-in-parallel", err.Error(), map[string]any{"round": round})
			}
			r.Count(12, 12)
		}
		r.Sample(map[string]any{"goroutines_per_round": 12, "rounds": rounds, "message_sizes": sizes})
		r.Incomplete("sampling of schedules on the real runtime is never exhaustive (supplementary evidence)")
	})
}
