#!/bin/sh
# Demonstrates that the C14 "ring" part detects deliberate property-breaking
# changes. /repo is never touched: mcgen writes an (unchanged) copy of the
# package plus the accessor into a scratch overlay, the copy is edited with
# sed and the part is run with `go test -overlay`. Scratch is removed at exit.
set -e
export GOFLAGS=-mod=mod GOPROXY=off GOSUMDB=off GOTOOLCHAIN=local
cd /verif
D=$(mktemp -d /tmp/c14ring-mut.XXXXXX)
trap 'rm -rf "$D"' EXIT
gen() { rm -rf "$D/g"; ./bin/mcgen -noconc -add ring=/verif/checks/c14ring/access.go.txt -out "$D/g" github.com/dapr/kit/ring; }
runit() { echo "== $1"; VERIF_ROOT="$D/root" go test -tags unit -overlay "$D/g/overlay.json" -vet=off ./checks/c14ring -run TestCheck -v -args -tier quick 2>&1 | grep -v "^ok\|^FAIL\|^---\|^PASS\|^=== RUN\|^exit status" | cut -c1-300 | awk '/^FINDING/{k=$0; getline m; n[k]++; if(n[k]==1) first[k]=m; next} {print} END{for(k in n) print k " x" n[k] "\n" first[k]}'; }
changed() { cmp -s "$D/g/src/ring/ring.go" "$D/orig.go" && { echo "mutation did not apply"; exit 2; } || true; }

gen; cp "$D/g/src/ring/ring.go" "$D/orig.go"
runit "baseline (unchanged code)"

gen; sed -i 's/return r.Link(r.Move(n + 1))/return r.Link(r.Move(n))/' "$D/g/src/ring/ring.go"; changed
runit "a1: Unlink links to Move(n) instead of Move(n+1)"

gen; sed -i 's/for ; n > 0; n-- {/for n++; n > 0; n-- {/' "$D/g/src/ring/ring.go"; changed
runit "a2: Move(n>0) walks n+1 elements"

gen; sed -i 's/n.prev = p$/n.prev = s/' "$D/g/src/ring/ring.go"; changed
runit "a3: Link sets n.prev = s instead of s.Prev() (Next order intact, Prev order broken)"

gen; sed -i 's/p := s.Prev()/p := s.prev/' "$D/g/src/ring/ring.go"; changed
runit "a4: Link reads s.prev directly (no lazy initialisation of a zero Ring passed as s)"

# equivalent mutant, expected NOT to be reported: a zero Ring's Prev returning r
# without initialising it is unobservable (every later operation initialises lazily)
gen; perl -0pi -e 's/(func \(r \*Ring\[T\]\) Prev\(\) \*Ring\[T\] \{\n\tif r.next == nil \{\n\t\treturn )r.init\(\)/$1r/' "$D/g/src/ring/ring.go"; changed
runit "e1 (equivalent, must stay clean): Prev on a zero Ring returns r without initialising it"
