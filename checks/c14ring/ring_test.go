// Package c14ring is the sequential "ring" part of C14: kit's generic
// ring.Ring[T] must behave exactly like the standard library's container/ring.
//
// Explicit-state breadth-first search over operation sequences on the real
// code: a state is the shortest operation history reaching it; a successor is
// produced by replaying that history on FRESH objects (a kit family and a
// container/ring family built in lock step) plus one operation; after the
// operation every return value and the whole structure are compared with
// container/ring; states are merged by a canonical key computed from the
// container/ring side (ring partition, cyclic order, values) plus the one piece
// of kit state that no method reveals (the lazy-initialisation flag of zero
// Rings, read through an in-package accessor added by the build overlay).
package c14ring

import (
	cring "container/ring"
	"encoding/json"
	"fmt"
	"sort"
	"strings"
	"testing"

	kring "github.com/dapr/kit/ring"

	"verif/enumx"
)

// maxNodes bounds the total number of nodes in the family (6 quick, 8 thorough).
var maxNodes = 6

type op struct {
	K string `json:"k"` // New Zero Next Prev Move Link Unlink Len Do Set Get
	A int    `json:"a"` // receiver handle (New: n)
	B int    `json:"b"` // argument (Move/Unlink: n, Link: handle of s or -1 for nil, Set: value)
}

func (o op) String() string {
	switch o.K {
	case "New":
		return fmt.Sprintf("New(%d)", o.A)
	case "Zero":
		return "new(Ring)"
	case "Next", "Prev", "Len", "Do", "Get":
		return fmt.Sprintf("n%d.%s()", o.A, o.K)
	case "Link":
		if o.B < 0 {
			return fmt.Sprintf("n%d.Link(nil)", o.A)
		}
		return fmt.Sprintf("n%d.Link(n%d)", o.A, o.B)
	case "Set":
		return fmt.Sprintf("n%d.Value=%d", o.A, o.B)
	}
	return fmt.Sprintf("n%d.%s(%d)", o.A, o.K, o.B)
}

func histString(h []op) string {
	s := make([]string, len(h))
	for i, o := range h {
		s[i] = o.String()
	}
	return strings.Join(s, "; ")
}

// opsFor lists every operation of the alphabet enabled in a state with n live
// nodes. Handles are node indices in creation order; every node ever created
// stays a live handle (an unlinked node is a ring of its own).
func opsFor(n int) []op {
	var out []op
	for k := -1; k <= 4; k++ {
		if k <= 0 || n+k <= maxNodes {
			out = append(out, op{K: "New", A: k})
		}
	}
	if n+1 <= maxNodes {
		out = append(out, op{K: "Zero"})
	}
	for h := 0; h < n; h++ {
		out = append(out, op{K: "Next", A: h}, op{K: "Prev", A: h}, op{K: "Len", A: h}, op{K: "Do", A: h}, op{K: "Get", A: h})
		for m := -3; m <= 3; m++ {
			out = append(out, op{K: "Move", A: h, B: m})
		}
		for m := -1; m <= 3; m++ {
			out = append(out, op{K: "Unlink", A: h, B: m})
		}
		for s := -1; s < n; s++ {
			out = append(out, op{K: "Link", A: h, B: s})
		}
		out = append(out, op{K: "Set", A: h, B: 7}, op{K: "Set", A: h, B: 9})
	}
	return out
}

// trivial operations are identities by definition of the API.
func trivial(o op) bool {
	return (o.K == "New" && o.A <= 0) || (o.K == "Move" && o.B == 0) || (o.K == "Unlink" && o.B <= 0)
}

type world struct {
	k    []*kring.Ring[any]
	s    []*cring.Ring
	kidx map[*kring.Ring[any]]int
	sidx map[*cring.Ring]int
}

func newWorld() *world {
	return &world{kidx: map[*kring.Ring[any]]int{}, sidx: map[*cring.Ring]int{}}
}

func (w *world) ki(p *kring.Ring[any]) int {
	if p == nil {
		return -1
	}
	if i, ok := w.kidx[p]; ok {
		return i
	}
	return -2
}

func (w *world) si(p *cring.Ring) int {
	if p == nil {
		return -1
	}
	if i, ok := w.sidx[p]; ok {
		return i
	}
	return -2
}

func name(i int) string {
	switch i {
	case -1:
		return "nil"
	case -2:
		return "an unknown element"
	}
	return fmt.Sprintf("n%d", i)
}

type tooMany struct{}

// doBoth runs Do on both sides and compares the visited values.
func doBoth(kr *kring.Ring[any], sr *cring.Ring, limit int) string {
	var kv, sv []any
	sr.Do(func(v any) { sv = append(sv, v) })
	kr.Do(func(v any) {
		kv = append(kv, v)
		if len(kv) > limit {
			panic(tooMany{})
		}
	})
	same := len(kv) == len(sv)
	for i := 0; same && i < len(kv); i++ {
		same = kv[i] == sv[i]
	}
	if !same {
		return fmt.Sprintf("Do visits %v, container/ring visits %v", kv, sv)
	}
	return ""
}

// step applies one operation to both families and compares the return values.
// cat is "" when they agree, else "return" or "panic".
func (w *world) step(o op) (cat, msg string) {
	defer func() {
		if e := recover(); e != nil {
			if _, ok := e.(tooMany); ok {
				cat, msg = "return", "Do does not terminate after visiting every element once"
				return
			}
			cat, msg = "panic", fmt.Sprintf("%s panicked: %v", o, e)
		}
	}()
	ret := func(kp *kring.Ring[any], sp *cring.Ring) (string, string) {
		if a, b := w.ki(kp), w.si(sp); a != b {
			return "return", fmt.Sprintf("%s returned %s, container/ring returned %s", o, name(a), name(b))
		}
		return "", ""
	}
	switch o.K {
	case "New":
		kr, sr := kring.New[any](o.A), cring.New(o.A)
		if o.A <= 0 {
			if kr != nil || sr != nil {
				return "return", fmt.Sprintf("New(%d) returned a non-nil ring (container/ring nil: %v)", o.A, sr == nil)
			}
			if a, b := kr.Len(), sr.Len(); a != b {
				return "return", fmt.Sprintf("Len of the nil ring is %d, container/ring says %d", a, b)
			}
			if m := doBoth(kr, sr, 1); m != "" {
				return "return", "nil ring: " + m
			}
			return "", ""
		}
		var kn []*kring.Ring[any]
		var sn []*cring.Ring
		kp, sp := kr, sr
		for i := 0; i < o.A; i++ {
			if kp == nil {
				return "return", fmt.Sprintf("New(%d): element %d is nil", o.A, i)
			}
			for _, q := range kn {
				if q == kp {
					return "return", fmt.Sprintf("New(%d): following Next returns to an earlier element after %d steps", o.A, i)
				}
			}
			kn, sn = append(kn, kp), append(sn, sp)
			kp, sp = kp.Next(), sp.Next()
		}
		if kp != kr {
			return "return", fmt.Sprintf("New(%d): following Next %d times does not return to the start", o.A, o.A)
		}
		for i := range kn {
			w.kidx[kn[i]], w.sidx[sn[i]] = len(w.k), len(w.s)
			w.k, w.s = append(w.k, kn[i]), append(w.s, sn[i])
		}
		return "", ""
	case "Zero":
		kp, sp := new(kring.Ring[any]), new(cring.Ring)
		w.kidx[kp], w.sidx[sp] = len(w.k), len(w.s)
		w.k, w.s = append(w.k, kp), append(w.s, sp)
		return "", ""
	}
	kr, sr := w.k[o.A], w.s[o.A]
	switch o.K {
	case "Next":
		return ret(kr.Next(), sr.Next())
	case "Prev":
		return ret(kr.Prev(), sr.Prev())
	case "Move":
		return ret(kr.Move(o.B), sr.Move(o.B))
	case "Unlink":
		return ret(kr.Unlink(o.B), sr.Unlink(o.B))
	case "Link":
		if o.B < 0 {
			return ret(kr.Link(nil), sr.Link(nil))
		}
		return ret(kr.Link(w.k[o.B]), sr.Link(w.s[o.B]))
	case "Len":
		if a, b := kr.Len(), sr.Len(); a != b {
			return "return", fmt.Sprintf("%s returned %d, container/ring returned %d", o, a, b)
		}
	case "Do":
		if m := doBoth(kr, sr, len(w.k)); m != "" {
			return "return", o.String() + ": " + m
		}
	case "Set":
		kr.Value, sr.Value = o.B, o.B
	case "Get":
		if kr.Value != sr.Value {
			return "return", fmt.Sprintf("n%d.Value is %v, container/ring has %v", o.A, kr.Value, sr.Value)
		}
	default:
		panic("unknown op " + o.K)
	}
	return "", ""
}

// uninit reads, for every node, whether kit still holds it as an uninitialised
// zero Ring. Must be called before compare (whose walks initialise them).
func (w *world) uninit() []bool {
	z := make([]bool, len(w.k))
	for i, p := range w.k {
		z[i] = !p.VerifInited()
	}
	return z
}

// compare checks the whole structure node by node: the Next walk and the Prev
// walk from every live handle (bounded by the number of nodes, so a corrupted
// ring cannot hang the check), every Value, and then Len and Do of every
// handle. Identity relations (which handles share a ring, in which order)
// are exactly the walks expressed in handle numbers.
func (w *world) compare() (msg string) {
	defer func() {
		if e := recover(); e != nil {
			if _, ok := e.(tooMany); ok {
				msg = "Do does not terminate after visiting every element once"
				return
			}
			msg = fmt.Sprintf("panic while observing: %v", e)
		}
	}()
	n := len(w.k)
	for i := 0; i < n; i++ {
		if w.k[i].Value != w.s[i].Value {
			return fmt.Sprintf("n%d.Value is %v, container/ring has %v", i, w.k[i].Value, w.s[i].Value)
		}
		kp, sp := w.k[i], w.s[i]
		for j := 1; j <= n; j++ {
			kp, sp = kp.Next(), sp.Next()
			if a, b := w.ki(kp), w.si(sp); a != b {
				return fmt.Sprintf("%d x Next from n%d reaches %s, container/ring reaches %s", j, i, name(a), name(b))
			}
			if kp == nil {
				break
			}
		}
		kp, sp = w.k[i], w.s[i]
		for j := 1; j <= n; j++ {
			kp, sp = kp.Prev(), sp.Prev()
			if a, b := w.ki(kp), w.si(sp); a != b {
				return fmt.Sprintf("%d x Prev from n%d reaches %s, container/ring reaches %s", j, i, name(a), name(b))
			}
			if kp == nil {
				break
			}
		}
	}
	for i := 0; i < n; i++ {
		if a, b := w.k[i].Len(), w.s[i].Len(); a != b {
			return fmt.Sprintf("n%d.Len() is %d, container/ring says %d", i, a, b)
		}
		if m := doBoth(w.k[i], w.s[i], n); m != "" {
			return fmt.Sprintf("n%d: %s", i, m)
		}
	}
	return ""
}

func minRotation(s string) string {
	best := s
	for i := 1; i < len(s); i++ {
		if r := s[i:] + s[:i]; r < best {
			best = r
		}
	}
	return best
}

// key is the canonical form of the container/ring family: each ring as the
// lexicographically least rotation of its label string (Next order), the rings
// sorted. Labels: value nil/7/9 -> '0','7','9'; the same for a node kit still
// holds uninitialised -> 'a','b','c'. Two states with the same key differ only
// by a renaming of handles, and the operation alphabet is closed under such
// renamings.
func (w *world) key(z []bool) string {
	n := len(w.s)
	seen := make([]bool, n)
	var rings []string
	for i := 0; i < n; i++ {
		if seen[i] {
			continue
		}
		var b []byte
		for p := i; p >= 0 && !seen[p]; p = w.si(w.s[p].Next()) {
			seen[p] = true
			labels := "079"
			if z[p] {
				labels = "abc"
			}
			switch w.s[p].Value {
			case nil:
				b = append(b, labels[0])
			case 7:
				b = append(b, labels[1])
			case 9:
				b = append(b, labels[2])
			default:
				panic(fmt.Sprintf("value outside the alphabet: %v", w.s[p].Value))
			}
		}
		rings = append(rings, minRotation(string(b)))
	}
	sort.Strings(rings)
	return strings.Join(rings, "|")
}

// replayHist builds fresh objects and applies h without observing.
func replayHist(h []op) *world {
	w := newWorld()
	for _, o := range h {
		w.step(o)
	}
	return w
}

type violation struct {
	key, msg string
	hist     []op
}

// tryStep replays h on fresh objects, applies o, and compares everything.
func tryStep(h []op, o op) (w *world, key string, v *violation) {
	w = replayHist(h)
	full := append(append([]op{}, h...), o)
	cat, msg := w.step(o)
	if cat != "" {
		return w, "", &violation{"ring:" + o.K + ":" + cat, fmt.Sprintf("after [%s]: %s", histString(h), msg), full}
	}
	z := w.uninit()
	if m := w.compare(); m != "" {
		return w, "", &violation{"ring:" + o.K + ":structure", fmt.Sprintf("after [%s] then %s: %s", histString(h), o, m), full}
	}
	return w, w.key(z), nil
}

type state struct {
	hist []op
	n    int
	key  string
}

type succ struct {
	key string
	o   op
	n   int
}

type expansion struct {
	succs      []succ
	viols      []*violation
	trans, nt  int64
	structural int64
}

func run(r *enumx.Run, replay *enumx.ReplayCase) {
	if replay != nil {
		var h []op
		if err := json.Unmarshal(replay.Case, &h); err != nil {
			panic(err)
		}
		for i := range h {
			if _, _, v := tryStep(h[:i], h[i]); v != nil {
				r.Violation(v.key, v.msg, v.hist)
				return
			}
		}
		return
	}
	// The bounded space is finite, so the search runs to its fixpoint (no new
	// canonical state); depth is only a safety cap far above the diameter.
	depth := 64
	if r.Thorough() {
		maxNodes = 8
	}
	r.Rule(fmt.Sprintf("explicit-state BFS over operation histories of ring.Ring[any] against container/ring: families of rings with <= %d nodes in total; alphabet New(-1..4), new(Ring) (lazily initialised zero value), and on every live node Next, Prev, Move(-3..3), Link(any live node or nil), Unlink(-1..3), Len, Do, Value=7|9, Value read; BFS to the FIXPOINT of canonical states (cap %d levels, not reached unless reported), i.e. histories of every length within the node bound, modulo the canonical key (ring partition + cyclic order + values of the container/ring family + kit's lazy-init flags); a successor is a replay of the shortest history on fresh objects plus one operation; after it every return value, the Next/Prev walks from every handle, every Value, Len and Do are compared. evaluations = transitions executed on the real object; non-trivial = all except the API's identities New(n<=0), Move(0), Unlink(n<=0).", maxNodes, depth))
	root := state{key: ""}
	seen := map[string]bool{"": true}
	frontier := []state{root}
	var states, trans int64 = 1, 0
	perLevel := []int{1}
	d := 0
	for ; d < depth && len(frontier) > 0; d++ {
		res := make([]*expansion, len(frontier))
		done := r.Parallel(len(frontier), func(i int) {
			st := frontier[i]
			e := &expansion{}
			local := map[string]bool{}
			for _, o := range opsFor(st.n) {
				w, k, v := tryStep(st.hist, o)
				e.trans++
				if !trivial(o) {
					e.nt++
				}
				if v != nil {
					e.viols = append(e.viols, v)
					continue
				}
				if k == st.key || local[k] {
					continue
				}
				local[k] = true
				e.succs = append(e.succs, succ{k, o, len(w.k)})
			}
			res[i] = e
		})
		var next []state
		for i, e := range res {
			if e == nil {
				continue
			}
			trans += e.trans
			r.Count(e.trans, e.nt)
			for _, v := range e.viols {
				r.Violation(v.key, v.msg, v.hist)
			}
			for _, s := range e.succs {
				if seen[s.key] {
					continue
				}
				seen[s.key] = true
				h := append(append(make([]op, 0, len(frontier[i].hist)+1), frontier[i].hist...), s.o)
				next = append(next, state{h, s.n, s.key})
				if len(next)%4000 == 1 {
					r.Sample(map[string]any{"history": histString(h), "canonical_state": s.key})
				}
			}
		}
		if done < len(frontier) {
			r.Incomplete(fmt.Sprintf("ring BFS: budget expired while expanding depth %d (%d of %d states expanded)", d, done, len(frontier)))
			states += int64(len(next))
			perLevel = append(perLevel, len(next))
			break
		}
		r.Space(fmt.Sprintf("ring: every operation applied in each of the %d canonical states first reached at depth %d (histories of length %d)", len(frontier), d, d+1))
		states += int64(len(next))
		perLevel = append(perLevel, len(next))
		frontier = next
	}
	if len(frontier) > 0 && d == depth {
		r.Incomplete(fmt.Sprintf("ring BFS: level cap %d reached before the fixpoint", depth))
	}
	r.Set("states", states)
	r.Set("transitions", trans)
	r.Set("fixpoint_reached", len(frontier) == 0)
	r.Set("bfs_levels", len(perLevel)-1)
	r.Set("new_canonical_states_per_depth", perLevel)
	r.Set("max_nodes", maxNodes)
}

func TestCheck(t *testing.T) { enumx.Main(t, "C14", "ring", run) }
